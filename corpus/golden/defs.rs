#[derive(Epserde, Debug, Clone)]
#[deep_copy]
pub struct Data0(pub Box<str>, pub Option<isize>, pub PhantomData<Vec<u16>>);
impl Obs for Data0 { fn obs(&self, out: &mut String) { out.push('['); self.0.obs(out); out.push(','); self.1.obs(out); out.push(','); self.2.obs(out); out.push(']'); } }
#[derive(Epserde, Debug, Clone, Copy)]
#[repr(C)]
#[zero_copy]
pub struct Rec1;
impl Obs for Rec1 { fn obs(&self, out: &mut String) { out.push('[');  out.push(']'); } }
#[derive(Epserde, Debug, Clone)]
#[deep_copy]
pub struct Shape2 { pub g: ((isize, isize,),) }
impl Obs for Shape2 { fn obs(&self, out: &mut String) { out.push('['); self.g.obs(out); out.push(']'); } }
#[derive(Epserde, Debug, Clone)]
#[deep_copy]
pub struct Pair3;
impl Obs for Pair3 { fn obs(&self, out: &mut String) { out.push('[');  out.push(']'); } }
#[derive(Epserde, Debug, Clone)]
#[deep_copy]
pub struct Node4 { pub f: NonZeroI128, pub e: u8, pub z: [Option<Box<str>>; 0], pub a: Data0 }
impl Obs for Node4 { fn obs(&self, out: &mut String) { out.push('['); self.f.obs(out); out.push(','); self.e.obs(out); out.push(','); self.z.obs(out); out.push(','); self.a.obs(out); out.push(']'); } }
#[derive(Epserde, Debug, Clone)]
#[deep_copy]
pub enum Node5<A, P> { Rec([Vec<f64>; 3], A, usize, A, P), Leaf, D, Second }
impl<A: Obs, P: Obs> Obs for Node5<A, P> { fn obs(&self, out: &mut String) { match self { Node5::Rec(x0, x1, x2, x3, x4) => { out.push_str("t0["); x0.obs(out); out.push(','); x1.obs(out); out.push(','); x2.obs(out); out.push(','); x3.obs(out); out.push(','); x4.obs(out); out.push(']'); } Node5::Leaf => { out.push_str("t1[");  out.push(']'); } Node5::D => { out.push_str("t2[");  out.push(']'); } Node5::Second => { out.push_str("t3[");  out.push(']'); } } } }
#[derive(Epserde, Debug, Clone, Copy)]
#[repr(C)]
#[repr(align(16))]
#[zero_copy]
pub struct E6<const N: usize> { pub k: [NonZeroI8; 1], pub data: RangeTo<u32> }
impl<const N: usize> Obs for E6<N> { fn obs(&self, out: &mut String) { out.push('['); self.k.obs(out); out.push(','); self.data.obs(out); out.push(']'); } }
#[derive(Epserde, Debug, Clone)]
#[deep_copy]
pub struct Data7<P = i16> { pub m: P, pub data: Pair3, pub e: Node5<(), PhantomData<()>> }
impl<P: Obs> Obs for Data7<P> { fn obs(&self, out: &mut String) { out.push('['); self.m.obs(out); out.push(','); self.data.obs(out); out.push(','); self.e.obs(out); out.push(']'); } }
#[derive(Epserde, Debug, Clone)]
pub enum Shape8<B, P> { Second { d: Node5<usize, (bool, bool, bool, bool, bool,)>, data: B, m: P }, Unit { b: ControlFlow<NonZeroI32, Option<NonZeroIsize>> } }
impl<B: Obs, P: Obs> Obs for Shape8<B, P> { fn obs(&self, out: &mut String) { match self { Shape8::Second { d, data, m } => { out.push_str("t0["); d.obs(out); out.push(','); data.obs(out); out.push(','); m.obs(out); out.push(']'); } Shape8::Unit { b } => { out.push_str("t1["); b.obs(out); out.push(']'); } } } }
#[derive(Epserde, Debug, Clone)]
#[deep_copy]
pub enum E9<const K: char> { C }
impl<const K: char> Obs for E9<K> { fn obs(&self, out: &mut String) { match self { E9::C => { out.push_str("t0[");  out.push(']'); } } } }
#[derive(Epserde, Debug, Clone, Copy)]
#[repr(C)]
#[zero_copy]
pub enum Data10 { A { f: [RangeToInclusive<u8>; 0] }, Unit }
impl Obs for Data10 { fn obs(&self, out: &mut String) { match self { Data10::A { f } => { out.push_str("t0["); f.obs(out); out.push(']'); } Data10::Unit => { out.push_str("t1[");  out.push(']'); } } } }
#[derive(Epserde, Debug, Clone, Copy)]
#[repr(C)]
#[zero_copy]
pub enum Data11 { D(NonZeroI32, E6<0>), Leaf { left: [Rec1; 2], right: u32 }, Tup { d: NonZeroU32 }, B }
impl Obs for Data11 { fn obs(&self, out: &mut String) { match self { Data11::D(x0, x1) => { out.push_str("t0["); x0.obs(out); out.push(','); x1.obs(out); out.push(']'); } Data11::Leaf { left, right } => { out.push_str("t1["); left.obs(out); out.push(','); right.obs(out); out.push(']'); } Data11::Tup { d } => { out.push_str("t2["); d.obs(out); out.push(']'); } Data11::B => { out.push_str("t3[");  out.push(']'); } } } }
#[derive(Epserde, Debug, Clone)]
pub enum Node12 { Tup(RangeToInclusive<E6<0>>, RangeTo<i16>) }
impl Obs for Node12 { fn obs(&self, out: &mut String) { match self { Node12::Tup(x0, x1) => { out.push_str("t0["); x0.obs(out); out.push(','); x1.obs(out); out.push(']'); } } } }
#[derive(Epserde, Debug, Clone)]
pub enum T13 { Node { val: Option<Node4> } }
impl Obs for T13 { fn obs(&self, out: &mut String) { match self { T13::Node { val } => { out.push_str("t0["); val.obs(out); out.push(']'); } } } }
#[derive(Epserde, Debug, Clone)]
pub struct S14<P: Clone> { pub val: i64, pub len: T13, pub right: RangeFull, pub e: P, pub item_count: P }
impl<P: Obs + Clone> Obs for S14<P> { fn obs(&self, out: &mut String) { out.push('['); self.val.obs(out); out.push(','); self.len.obs(out); out.push(','); self.right.obs(out); out.push(','); self.e.obs(out); out.push(','); self.item_count.obs(out); out.push(']'); } }
#[derive(Epserde, Debug, Clone, Copy)]
#[repr(C)]
#[zero_copy]
pub struct Wrapper15;
impl Obs for Wrapper15 { fn obs(&self, out: &mut String) { out.push('[');  out.push(']'); } }
#[derive(Epserde, Debug, Clone, Copy)]
#[repr(C)]
#[zero_copy]
pub struct Shape16 { pub k: isize }
impl Obs for Shape16 { fn obs(&self, out: &mut String) { out.push('['); self.k.obs(out); out.push(']'); } }
#[derive(Epserde, Debug, Clone)]
#[deep_copy]
pub struct E17<A: Clone>(pub A);
impl<A: Obs + Clone> Obs for E17<A> { fn obs(&self, out: &mut String) { out.push('['); self.0.obs(out); out.push(']'); } }
#[derive(Epserde, Debug, Clone)]
#[repr(C)]
pub struct Data18<A, const N: i32> { pub k: PhantomData<A> }
impl<A: Obs, const N: i32> Obs for Data18<A, N> { fn obs(&self, out: &mut String) { out.push('['); self.k.obs(out); out.push(']'); } }
#[derive(Epserde, Debug, Clone)]
#[repr(C)]
#[deep_copy]
pub struct Data19(pub Vec<i128>, pub ControlFlow<Data11, Shape8<isize, String>>, pub Option<T13>);
impl Obs for Data19 { fn obs(&self, out: &mut String) { out.push('['); self.0.obs(out); out.push(','); self.1.obs(out); out.push(','); self.2.obs(out); out.push(']'); } }
#[derive(Epserde, Debug, Clone, Copy)]
#[repr(C)]
#[repr(align(8))]
#[zero_copy]
pub struct T20 { pub f: Rec1 }
impl Obs for T20 { fn obs(&self, out: &mut String) { out.push('['); self.f.obs(out); out.push(']'); } }
#[derive(Epserde, Debug, Clone)]
#[repr(C)]
#[deep_copy]
pub enum Node21<const K: i32> { A }
impl<const K: i32> Obs for Node21<K> { fn obs(&self, out: &mut String) { match self { Node21::A => { out.push_str("t0[");  out.push(']'); } } } }
#[derive(Epserde, Debug, Clone)]
pub struct Rec22<B>(pub B, pub B);
impl<B: Obs> Obs for Rec22<B> { fn obs(&self, out: &mut String) { out.push('['); self.0.obs(out); out.push(','); self.1.obs(out); out.push(']'); } }
#[derive(Epserde, Debug, Clone)]
#[deep_copy]
pub enum Shape23<const FLAG: i32> { B, D { f: NonZeroU64 }, First(ControlFlow<Box<[u64]>, ControlFlow<String, f32>>, [Shape8<String, usize>; 1]) }
impl<const FLAG: i32> Obs for Shape23<FLAG> { fn obs(&self, out: &mut String) { match self { Shape23::B => { out.push_str("t0[");  out.push(']'); } Shape23::D { f } => { out.push_str("t1["); f.obs(out); out.push(']'); } Shape23::First(x0, x1) => { out.push_str("t2["); x0.obs(out); out.push(','); x1.obs(out); out.push(']'); } } } }
#[derive(Epserde, Debug, Clone)]
#[deep_copy]
pub enum Shape24 { First }
impl Obs for Shape24 { fn obs(&self, out: &mut String) { match self { Shape24::First => { out.push_str("t0[");  out.push(']'); } } } }
#[derive(Epserde, Debug, Clone, Copy)]
#[repr(C)]
#[zero_copy]
pub struct Data25(pub [bool; 5], pub ((i8, i8, i8, i8,),));
impl Obs for Data25 { fn obs(&self, out: &mut String) { out.push('['); self.0.obs(out); out.push(','); self.1.obs(out); out.push(']'); } }
#[derive(Epserde, Debug, Clone)]
#[deep_copy]
pub struct Node26 { pub m: Data0 }
impl Obs for Node26 { fn obs(&self, out: &mut String) { out.push('['); self.m.obs(out); out.push(']'); } }
#[derive(Epserde, Debug, Clone)]
#[deep_copy]
pub struct Msg27<B> { pub left: PhantomData<B>, pub d: (i32, i32, i32, i32, i32,) }
impl<B: Obs> Obs for Msg27<B> { fn obs(&self, out: &mut String) { out.push('['); self.left.obs(out); out.push(','); self.d.obs(out); out.push(']'); } }
#[derive(Epserde, Debug, Clone)]
#[deep_copy]
pub struct Node28<A, B> { pub b: ControlFlow<Vec<u64>, [Box<str>; 3]>, pub k: E6<0>, pub y: B, pub left: PhantomData<A>, pub val: B }
impl<A: Obs, B: Obs> Obs for Node28<A, B> { fn obs(&self, out: &mut String) { out.push('['); self.b.obs(out); out.push(','); self.k.obs(out); out.push(','); self.y.obs(out); out.push(','); self.left.obs(out); out.push(','); self.val.obs(out); out.push(']'); } }
#[derive(Epserde, Debug, Clone)]
#[repr(C)]
#[deep_copy]
pub struct Wrapper29<B: Clone, const N: u64> { pub k: T20, pub len: B, pub z: Shape23<3>, pub y: Vec<i8> }
impl<B: Obs + Clone, const N: u64> Obs for Wrapper29<B, N> { fn obs(&self, out: &mut String) { out.push('['); self.k.obs(out); out.push(','); self.len.obs(out); out.push(','); self.z.obs(out); out.push(','); self.y.obs(out); out.push(']'); } }
#[derive(Epserde, Debug, Clone)]
pub struct Rec30 { pub m: Box<[u16]>, pub d: [(NonZeroU64,); 0] }
impl Obs for Rec30 { fn obs(&self, out: &mut String) { out.push('['); self.m.obs(out); out.push(','); self.d.obs(out); out.push(']'); } }
#[derive(Epserde, Debug, Clone)]
#[deep_copy]
pub struct Node31<P> { pub y: f32, pub g: Rec30, pub e: Shape23<3>, pub right: P }
impl<P: Obs> Obs for Node31<P> { fn obs(&self, out: &mut String) { out.push('['); self.y.obs(out); out.push(','); self.g.obs(out); out.push(','); self.e.obs(out); out.push(','); self.right.obs(out); out.push(']'); } }
#[derive(Epserde, Debug, Clone)]
#[deep_copy]
pub struct S32;
impl Obs for S32 { fn obs(&self, out: &mut String) { out.push('[');  out.push(']'); } }
#[derive(Epserde, Debug, Clone, Copy)]
#[repr(C)]
#[repr(align(32))]
#[zero_copy]
pub enum E33 { Tup }
impl Obs for E33 { fn obs(&self, out: &mut String) { match self { E33::Tup => { out.push_str("t0[");  out.push(']'); } } } }
#[derive(Epserde, Debug, Clone)]
pub enum Node34 { Rec(Data7<Range<NonZeroU8>>), Second(Data7<Vec<i64>>) }
impl Obs for Node34 { fn obs(&self, out: &mut String) { match self { Node34::Rec(x0) => { out.push_str("t0["); x0.obs(out); out.push(']'); } Node34::Second(x0) => { out.push_str("t1["); x0.obs(out); out.push(']'); } } } }
#[derive(Epserde, Debug, Clone, Copy)]
#[repr(C)]
#[zero_copy]
pub struct S35<const FLAG: bool> { pub val: i128, pub data: i128, pub len: [i8; 3], pub c: ([NonZeroUsize; 3], [NonZeroUsize; 3],) }
impl<const FLAG: bool> Obs for S35<FLAG> { fn obs(&self, out: &mut String) { out.push('['); self.val.obs(out); out.push(','); self.data.obs(out); out.push(','); self.len.obs(out); out.push(','); self.c.obs(out); out.push(']'); } }
pub mod kf1 {
use super::*;
#[derive(Epserde, Debug, Clone, Copy)]
#[repr(C)]
#[zero_copy]
pub struct T { pub x: ((u8, u8,), (u8, u8,),), pub y: (u8, u8,), pub z: u8 }
impl Obs for T { fn obs(&self, out: &mut String) { out.push('['); self.x.obs(out); out.push(','); self.y.obs(out); out.push(','); self.z.obs(out); out.push(']'); } }
}
pub mod kf2 {
use super::*;
#[derive(Epserde, Debug, Clone, Copy)]
#[repr(C)]
#[zero_copy]
pub struct T { pub x: ((u8, u8,),), pub y: (u8, u8,), pub z: (u8, u8, u8,) }
impl Obs for T { fn obs(&self, out: &mut String) { out.push('['); self.x.obs(out); out.push(','); self.y.obs(out); out.push(','); self.z.obs(out); out.push(']'); } }
}
pub mod kf3 {
use super::*;
#[derive(Epserde, Debug, Clone)]
#[deep_copy]
pub enum abcdefg { N, S }
impl Obs for abcdefg { fn obs(&self, out: &mut String) { match self { abcdefg::N => { out.push_str("t0[");  out.push(']'); } abcdefg::S => { out.push_str("t1[");  out.push(']'); } } } }
}
pub mod kf4 {
use super::*;
#[derive(Epserde, Debug, Clone)]
#[deep_copy]
pub struct S<const N: usize>;
impl<const N: usize> Obs for S<N> { fn obs(&self, out: &mut String) { out.push('[');  out.push(']'); } }
}
pub mod mu1 {
use super::*;
#[derive(Epserde, Debug, Clone, Copy)]
#[repr(C)]
#[zero_copy]
pub struct Data25x(pub [bool; 5], pub ((i8, i8, i8, i8,),));
impl Obs for Data25x { fn obs(&self, out: &mut String) { out.push('['); self.0.obs(out); out.push(','); self.1.obs(out); out.push(']'); } }
}
pub mod mu2 {
use super::*;
#[derive(Epserde, Debug, Clone, Copy)]
#[repr(C)]
#[zero_copy]
pub struct Data25(pub ((i8, i8, i8, i8,),), pub [bool; 5]);
impl Obs for Data25 { fn obs(&self, out: &mut String) { out.push('['); self.0.obs(out); out.push(','); self.1.obs(out); out.push(']'); } }
}
pub mod mu3 {
use super::*;
#[derive(Epserde, Debug, Clone)]
#[repr(C)]
#[deep_copy]
pub struct Data25(pub [bool; 5], pub ((i8, i8, i8, i8,),));
impl Obs for Data25 { fn obs(&self, out: &mut String) { out.push('['); self.0.obs(out); out.push(','); self.1.obs(out); out.push(']'); } }
}
pub mod mu4 {
use super::*;
#[derive(Epserde, Debug, Clone, Copy)]
#[repr(C)]
#[repr(align(16))]
#[zero_copy]
pub struct Data25(pub [bool; 5], pub ((i8, i8, i8, i8,),));
impl Obs for Data25 { fn obs(&self, out: &mut String) { out.push('['); self.0.obs(out); out.push(','); self.1.obs(out); out.push(']'); } }
}
pub mod mu5 {
use super::*;
#[derive(Epserde, Debug, Clone, Copy)]
#[repr(C)]
#[repr(align(16))]
#[zero_copy]
pub struct E6x<const N: usize> { pub k: [NonZeroI8; 1], pub data: RangeTo<u32> }
impl<const N: usize> Obs for E6x<N> { fn obs(&self, out: &mut String) { out.push('['); self.k.obs(out); out.push(','); self.data.obs(out); out.push(']'); } }
}
pub mod mu6 {
use super::*;
#[derive(Epserde, Debug, Clone, Copy)]
#[repr(C)]
#[repr(align(16))]
#[zero_copy]
pub struct E6<const N: usize> { pub k_r: [NonZeroI8; 1], pub data: RangeTo<u32> }
impl<const N: usize> Obs for E6<N> { fn obs(&self, out: &mut String) { out.push('['); self.k_r.obs(out); out.push(','); self.data.obs(out); out.push(']'); } }
}
pub mod mu7 {
use super::*;
#[derive(Epserde, Debug, Clone, Copy)]
#[repr(C)]
#[repr(align(16))]
#[zero_copy]
pub struct E6<const N: usize> { pub data: RangeTo<u32>, pub k: [NonZeroI8; 1] }
impl<const N: usize> Obs for E6<N> { fn obs(&self, out: &mut String) { out.push('['); self.data.obs(out); out.push(','); self.k.obs(out); out.push(']'); } }
}
pub mod mu8 {
use super::*;
#[derive(Epserde, Debug, Clone)]
#[repr(C)]
#[repr(align(16))]
#[deep_copy]
pub struct E6<const N: usize> { pub k: [NonZeroI8; 1], pub data: RangeTo<u32> }
impl<const N: usize> Obs for E6<N> { fn obs(&self, out: &mut String) { out.push('['); self.k.obs(out); out.push(','); self.data.obs(out); out.push(']'); } }
}
pub mod mu9 {
use super::*;
#[derive(Epserde, Debug, Clone, Copy)]
#[repr(C)]
#[repr(align(32))]
#[zero_copy]
pub struct E6<const N: usize> { pub k: [NonZeroI8; 1], pub data: RangeTo<u32> }
impl<const N: usize> Obs for E6<N> { fn obs(&self, out: &mut String) { out.push('['); self.k.obs(out); out.push(','); self.data.obs(out); out.push(']'); } }
}
pub mod mu10 {
use super::*;
#[derive(Epserde, Debug, Clone, Copy)]
#[repr(C)]
#[repr(align(16))]
#[zero_copy]
pub struct E6<const N: usize> { pub k: [NonZeroI8; 1], pub data: RangeTo<u32> }
impl<const N: usize> Obs for E6<N> { fn obs(&self, out: &mut String) { out.push('['); self.k.obs(out); out.push(','); self.data.obs(out); out.push(']'); } }
}
pub mod mu11 {
use super::*;
#[derive(Epserde, Debug, Clone, Copy)]
#[repr(C)]
#[repr(align(16))]
#[zero_copy]
pub struct E6<const NX: usize> { pub k: [NonZeroI8; 1], pub data: RangeTo<u32> }
impl<const NX: usize> Obs for E6<NX> { fn obs(&self, out: &mut String) { out.push('['); self.k.obs(out); out.push(','); self.data.obs(out); out.push(']'); } }
}
pub mod mu12 {
use super::*;
#[derive(Epserde, Debug, Clone)]
pub enum T13x { Node { val: Option<Node4> } }
impl Obs for T13x { fn obs(&self, out: &mut String) { match self { T13x::Node { val } => { out.push_str("t0["); val.obs(out); out.push(']'); } } } }
}
pub mod mu13 {
use super::*;
#[derive(Epserde, Debug, Clone)]
pub enum T13 { NodeR { val: Option<Node4> } }
impl Obs for T13 { fn obs(&self, out: &mut String) { match self { T13::NodeR { val } => { out.push_str("t0["); val.obs(out); out.push(']'); } } } }
}
pub mod mu14 {
use super::*;
#[derive(Epserde, Debug, Clone)]
pub enum Node12x { Tup(RangeToInclusive<E6<0>>, RangeTo<i16>) }
impl Obs for Node12x { fn obs(&self, out: &mut String) { match self { Node12x::Tup(x0, x1) => { out.push_str("t0["); x0.obs(out); out.push(','); x1.obs(out); out.push(']'); } } } }
}
pub mod mu15 {
use super::*;
#[derive(Epserde, Debug, Clone)]
pub enum Node12 { TupR(RangeToInclusive<E6<0>>, RangeTo<i16>) }
impl Obs for Node12 { fn obs(&self, out: &mut String) { match self { Node12::TupR(x0, x1) => { out.push_str("t0["); x0.obs(out); out.push(','); x1.obs(out); out.push(']'); } } } }
}
pub mod mu16 {
use super::*;
#[derive(Epserde, Debug, Clone)]
#[deep_copy]
pub struct S32x;
impl Obs for S32x { fn obs(&self, out: &mut String) { out.push('[');  out.push(']'); } }
}
pub mod mu17 {
use super::*;
#[derive(Epserde, Debug, Clone)]
#[deep_copy]
pub struct Sx<const N: usize>;
impl<const N: usize> Obs for Sx<N> { fn obs(&self, out: &mut String) { out.push('[');  out.push(']'); } }
}
pub mod mu18 {
use super::*;
#[derive(Epserde, Debug, Clone)]
#[deep_copy]
pub struct S<const N: usize>;
impl<const N: usize> Obs for S<N> { fn obs(&self, out: &mut String) { out.push('[');  out.push(']'); } }
}
pub mod mu19 {
use super::*;
#[derive(Epserde, Debug, Clone)]
#[deep_copy]
pub struct S<const NX: usize>;
impl<const NX: usize> Obs for S<NX> { fn obs(&self, out: &mut String) { out.push('[');  out.push(']'); } }
}
pub mod mu20 {
use super::*;
#[derive(Epserde, Debug, Clone)]
#[repr(C)]
#[deep_copy]
pub struct Data19x(pub Vec<i128>, pub ControlFlow<Data11, Shape8<isize, String>>, pub Option<T13>);
impl Obs for Data19x { fn obs(&self, out: &mut String) { out.push('['); self.0.obs(out); out.push(','); self.1.obs(out); out.push(','); self.2.obs(out); out.push(']'); } }
}
pub mod mu21 {
use super::*;
#[derive(Epserde, Debug, Clone)]
#[repr(C)]
#[deep_copy]
pub struct Data19(pub ControlFlow<Data11, Shape8<isize, String>>, pub Vec<i128>, pub Option<T13>);
impl Obs for Data19 { fn obs(&self, out: &mut String) { out.push('['); self.0.obs(out); out.push(','); self.1.obs(out); out.push(','); self.2.obs(out); out.push(']'); } }
}
pub mod mu22 {
use super::*;
#[derive(Epserde, Debug, Clone, Copy)]
#[repr(C)]
#[zero_copy]
pub struct S35x<const FLAG: bool> { pub val: i128, pub data: i128, pub len: [i8; 3], pub c: ([NonZeroUsize; 3], [NonZeroUsize; 3],) }
impl<const FLAG: bool> Obs for S35x<FLAG> { fn obs(&self, out: &mut String) { out.push('['); self.val.obs(out); out.push(','); self.data.obs(out); out.push(','); self.len.obs(out); out.push(','); self.c.obs(out); out.push(']'); } }
}
pub mod mu23 {
use super::*;
#[derive(Epserde, Debug, Clone, Copy)]
#[repr(C)]
#[zero_copy]
pub struct S35<const FLAG: bool> { pub val_r: i128, pub data: i128, pub len: [i8; 3], pub c: ([NonZeroUsize; 3], [NonZeroUsize; 3],) }
impl<const FLAG: bool> Obs for S35<FLAG> { fn obs(&self, out: &mut String) { out.push('['); self.val_r.obs(out); out.push(','); self.data.obs(out); out.push(','); self.len.obs(out); out.push(','); self.c.obs(out); out.push(']'); } }
}
pub mod mu24 {
use super::*;
#[derive(Epserde, Debug, Clone, Copy)]
#[repr(C)]
#[zero_copy]
pub struct S35<const FLAG: bool> { pub val: u128, pub data: i128, pub len: [i8; 3], pub c: ([NonZeroUsize; 3], [NonZeroUsize; 3],) }
impl<const FLAG: bool> Obs for S35<FLAG> { fn obs(&self, out: &mut String) { out.push('['); self.val.obs(out); out.push(','); self.data.obs(out); out.push(','); self.len.obs(out); out.push(','); self.c.obs(out); out.push(']'); } }
}
pub mod mu25 {
use super::*;
#[derive(Epserde, Debug, Clone)]
#[repr(C)]
#[deep_copy]
pub struct S35<const FLAG: bool> { pub val: i128, pub data: i128, pub len: [i8; 3], pub c: ([NonZeroUsize; 3], [NonZeroUsize; 3],) }
impl<const FLAG: bool> Obs for S35<FLAG> { fn obs(&self, out: &mut String) { out.push('['); self.val.obs(out); out.push(','); self.data.obs(out); out.push(','); self.len.obs(out); out.push(','); self.c.obs(out); out.push(']'); } }
}
pub mod mu26 {
use super::*;
#[derive(Epserde, Debug, Clone, Copy)]
#[repr(C)]
#[repr(align(16))]
#[zero_copy]
pub struct S35<const FLAG: bool> { pub val: i128, pub data: i128, pub len: [i8; 3], pub c: ([NonZeroUsize; 3], [NonZeroUsize; 3],) }
impl<const FLAG: bool> Obs for S35<FLAG> { fn obs(&self, out: &mut String) { out.push('['); self.val.obs(out); out.push(','); self.data.obs(out); out.push(','); self.len.obs(out); out.push(','); self.c.obs(out); out.push(']'); } }
}
pub mod mu27 {
use super::*;
#[derive(Epserde, Debug, Clone, Copy)]
#[repr(C)]
#[zero_copy]
pub struct S35<const FLAG: bool> { pub val: i128, pub data: i128, pub len: [i8; 3], pub c: ([NonZeroUsize; 3], [NonZeroUsize; 3],) }
impl<const FLAG: bool> Obs for S35<FLAG> { fn obs(&self, out: &mut String) { out.push('['); self.val.obs(out); out.push(','); self.data.obs(out); out.push(','); self.len.obs(out); out.push(','); self.c.obs(out); out.push(']'); } }
}
pub mod mu28 {
use super::*;
#[derive(Epserde, Debug, Clone, Copy)]
#[repr(C)]
#[zero_copy]
pub struct S35<const FLAGX: bool> { pub val: i128, pub data: i128, pub len: [i8; 3], pub c: ([NonZeroUsize; 3], [NonZeroUsize; 3],) }
impl<const FLAGX: bool> Obs for S35<FLAGX> { fn obs(&self, out: &mut String) { out.push('['); self.val.obs(out); out.push(','); self.data.obs(out); out.push(','); self.len.obs(out); out.push(','); self.c.obs(out); out.push(']'); } }
}
pub mod mu29 {
use super::*;
#[derive(Epserde, Debug, Clone)]
#[repr(C)]
#[deep_copy]
pub enum Node21x<const K: i32> { A }
impl<const K: i32> Obs for Node21x<K> { fn obs(&self, out: &mut String) { match self { Node21x::A => { out.push_str("t0[");  out.push(']'); } } } }
}
pub mod mu30 {
use super::*;
#[derive(Epserde, Debug, Clone)]
#[repr(C)]
#[deep_copy]
pub enum Node21<const K: i32> { A }
impl<const K: i32> Obs for Node21<K> { fn obs(&self, out: &mut String) { match self { Node21::A => { out.push_str("t0[");  out.push(']'); } } } }
}
pub mod mu31 {
use super::*;
#[derive(Epserde, Debug, Clone)]
#[repr(C)]
#[deep_copy]
pub enum Node21<const KX: i32> { A }
impl<const KX: i32> Obs for Node21<KX> { fn obs(&self, out: &mut String) { match self { Node21::A => { out.push_str("t0[");  out.push(']'); } } } }
}
pub mod mu32 {
use super::*;
#[derive(Epserde, Debug, Clone)]
#[repr(C)]
#[deep_copy]
pub enum Node21<const K: i32> { AR }
impl<const K: i32> Obs for Node21<K> { fn obs(&self, out: &mut String) { match self { Node21::AR => { out.push_str("t0[");  out.push(']'); } } } }
}
pub mod mu33 {
use super::*;
#[derive(Epserde, Debug, Clone)]
#[deep_copy]
pub enum E9x<const K: char> { C }
impl<const K: char> Obs for E9x<K> { fn obs(&self, out: &mut String) { match self { E9x::C => { out.push_str("t0[");  out.push(']'); } } } }
}
pub mod mu34 {
use super::*;
#[derive(Epserde, Debug, Clone)]
#[deep_copy]
pub enum E9<const K: char> { C }
impl<const K: char> Obs for E9<K> { fn obs(&self, out: &mut String) { match self { E9::C => { out.push_str("t0[");  out.push(']'); } } } }
}
pub mod mu35 {
use super::*;
#[derive(Epserde, Debug, Clone)]
#[deep_copy]
pub enum E9<const KX: char> { C }
impl<const KX: char> Obs for E9<KX> { fn obs(&self, out: &mut String) { match self { E9::C => { out.push_str("t0[");  out.push(']'); } } } }
}
pub mod mu36 {
use super::*;
#[derive(Epserde, Debug, Clone)]
#[deep_copy]
pub enum E9<const K: char> { CR }
impl<const K: char> Obs for E9<K> { fn obs(&self, out: &mut String) { match self { E9::CR => { out.push_str("t0[");  out.push(']'); } } } }
}
pub mod mu37 {
use super::*;
#[derive(Epserde, Debug, Clone)]
#[deep_copy]
pub struct Data7x<P = i16> { pub m: P, pub data: Pair3, pub e: Node5<(), PhantomData<()>> }
impl<P: Obs> Obs for Data7x<P> { fn obs(&self, out: &mut String) { out.push('['); self.m.obs(out); out.push(','); self.data.obs(out); out.push(','); self.e.obs(out); out.push(']'); } }
}
pub mod mu38 {
use super::*;
#[derive(Epserde, Debug, Clone)]
#[deep_copy]
pub struct Data7<P = i16> { pub m_r: P, pub data: Pair3, pub e: Node5<(), PhantomData<()>> }
impl<P: Obs> Obs for Data7<P> { fn obs(&self, out: &mut String) { out.push('['); self.m_r.obs(out); out.push(','); self.data.obs(out); out.push(','); self.e.obs(out); out.push(']'); } }
}
pub mod mu39 {
use super::*;
#[derive(Epserde, Debug, Clone)]
#[deep_copy]
pub struct Data7<P = i16> { pub data: Pair3, pub m: P, pub e: Node5<(), PhantomData<()>> }
impl<P: Obs> Obs for Data7<P> { fn obs(&self, out: &mut String) { out.push('['); self.data.obs(out); out.push(','); self.m.obs(out); out.push(','); self.e.obs(out); out.push(']'); } }
}
pub mod mu40 {
use super::*;
#[derive(Epserde, Debug, Clone, Copy)]
#[repr(C)]
#[zero_copy]
pub struct Shape16x { pub k: isize }
impl Obs for Shape16x { fn obs(&self, out: &mut String) { out.push('['); self.k.obs(out); out.push(']'); } }
}
pub mod mu41 {
use super::*;
#[derive(Epserde, Debug, Clone, Copy)]
#[repr(C)]
#[zero_copy]
pub struct Shape16 { pub k_r: isize }
impl Obs for Shape16 { fn obs(&self, out: &mut String) { out.push('['); self.k_r.obs(out); out.push(']'); } }
}
pub mod mu42 {
use super::*;
#[derive(Epserde, Debug, Clone, Copy)]
#[repr(C)]
#[zero_copy]
pub struct Shape16 { pub k: i64 }
impl Obs for Shape16 { fn obs(&self, out: &mut String) { out.push('['); self.k.obs(out); out.push(']'); } }
}
pub mod mu43 {
use super::*;
#[derive(Epserde, Debug, Clone)]
#[repr(C)]
#[deep_copy]
pub struct Shape16 { pub k: isize }
impl Obs for Shape16 { fn obs(&self, out: &mut String) { out.push('['); self.k.obs(out); out.push(']'); } }
}
pub mod mu44 {
use super::*;
#[derive(Epserde, Debug, Clone, Copy)]
#[repr(C)]
#[repr(align(16))]
#[zero_copy]
pub struct Shape16 { pub k: isize }
impl Obs for Shape16 { fn obs(&self, out: &mut String) { out.push('['); self.k.obs(out); out.push(']'); } }
}
pub mod mu45 {
use super::*;
#[derive(Epserde, Debug, Clone, Copy)]
#[repr(C)]
#[zero_copy]
pub struct Rec1x;
impl Obs for Rec1x { fn obs(&self, out: &mut String) { out.push('[');  out.push(']'); } }
}
pub mod mu46 {
use super::*;
#[derive(Epserde, Debug, Clone)]
#[repr(C)]
#[deep_copy]
pub struct Rec1;
impl Obs for Rec1 { fn obs(&self, out: &mut String) { out.push('[');  out.push(']'); } }
}
pub mod mu47 {
use super::*;
#[derive(Epserde, Debug, Clone, Copy)]
#[repr(C)]
#[repr(align(16))]
#[zero_copy]
pub struct Rec1;
impl Obs for Rec1 { fn obs(&self, out: &mut String) { out.push('[');  out.push(']'); } }
}
pub mod mu48 {
use super::*;
#[derive(Epserde, Debug, Clone)]
#[deep_copy]
pub struct E17x<A: Clone>(pub A);
impl<A: Obs + Clone> Obs for E17x<A> { fn obs(&self, out: &mut String) { out.push('['); self.0.obs(out); out.push(']'); } }
}
