#!/bin/bash
# Offline set-up after a fresh restore: build the Coq development, the extracted model driver
# and the Rust harness (against /repo's current tree). Everything lives under /verif.
set -e
cd "$(dirname "$0")"
export CARGO_NET_OFFLINE=true
mkdir -p .cache evidence replays
( cd coq && coq_makefile -f _CoqProject -o Makefile >/dev/null && timeout 3000 make -j"$(nproc)" >/dev/null )
( cd driver && bash build.sh )
( cd harness && cargo build --offline --quiet --bins --lib )
( cd harness_nommap && CARGO_TARGET_DIR=/verif/.cache/target-nommap cargo build --offline --quiet )
echo setup-ok
