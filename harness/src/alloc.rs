//! Counting global allocator: live bytes / live blocks, to observe leaks and the memory
//! allocated by a deserialization.
use std::alloc::{GlobalAlloc, Layout, System};
use std::sync::atomic::{AtomicIsize, AtomicUsize, Ordering};

pub struct Counting;
pub static LIVE_BYTES: AtomicIsize = AtomicIsize::new(0);
pub static LIVE_BLOCKS: AtomicIsize = AtomicIsize::new(0);
pub static TOTAL_ALLOCATED: AtomicUsize = AtomicUsize::new(0);
/// log of the request sizes while LOGGING is on (first LOG_CAP requests; LOG_N counts all of them)
pub const LOG_CAP: usize = 256;
pub static LOGGING: AtomicUsize = AtomicUsize::new(0);
pub static LOG_N: AtomicUsize = AtomicUsize::new(0);
#[allow(clippy::declare_interior_mutable_const)]
const Z: AtomicUsize = AtomicUsize::new(0);
pub static LOG: [AtomicUsize; LOG_CAP] = [Z; LOG_CAP];

#[inline]
fn log(size: usize) {
    if LOGGING.load(Ordering::SeqCst) != 0 {
        let i = LOG_N.fetch_add(1, Ordering::SeqCst);
        if i < LOG_CAP {
            LOG[i].store(size, Ordering::SeqCst);
        }
    }
}

/// Runs `f` and returns its result with (number of allocation requests, bytes requested, the
/// first LOG_CAP request sizes). Reallocations count as requests of the new size.
pub fn measure<R>(f: impl FnOnce() -> R) -> (R, usize, usize, Vec<usize>) {
    LOG_N.store(0, Ordering::SeqCst);
    let t0 = total();
    LOGGING.store(1, Ordering::SeqCst);
    let r = f();
    LOGGING.store(0, Ordering::SeqCst);
    let n = LOG_N.load(Ordering::SeqCst);
    let bytes = total() - t0;
    let sizes = (0..n.min(LOG_CAP)).map(|i| LOG[i].load(Ordering::SeqCst)).collect();
    (r, n, bytes, sizes)
}

/// Requests above this size fail (null), as an exhausted allocator would: a changed crate that takes
/// a length from the wrong bytes aborts at once instead of crawling through gigabytes of poison.
/// No campaign stream is longer than a few hundred kilobytes.
pub const REQUEST_CAP: usize = 1 << 30;

unsafe impl GlobalAlloc for Counting {
    unsafe fn alloc(&self, l: Layout) -> *mut u8 {
        if l.size() > REQUEST_CAP {
            return core::ptr::null_mut();
        }
        LIVE_BYTES.fetch_add(l.size() as isize, Ordering::SeqCst);
        LIVE_BLOCKS.fetch_add(1, Ordering::SeqCst);
        TOTAL_ALLOCATED.fetch_add(l.size(), Ordering::SeqCst);
        log(l.size());
        // fresh memory is poisoned: reading a byte the library forgot to initialise (e.g. the tail of
        // a backing region that should be zero) does not depend on what the allocator recycles
        let p = System.alloc(l);
        if !p.is_null() {
            core::ptr::write_bytes(p, 0xA5, l.size());
        }
        p
    }
    unsafe fn dealloc(&self, p: *mut u8, l: Layout) {
        LIVE_BYTES.fetch_sub(l.size() as isize, Ordering::SeqCst);
        LIVE_BLOCKS.fetch_sub(1, Ordering::SeqCst);
        System.dealloc(p, l)
    }
    unsafe fn realloc(&self, p: *mut u8, l: Layout, new_size: usize) -> *mut u8 {
        if new_size > REQUEST_CAP {
            return core::ptr::null_mut();
        }
        LIVE_BYTES.fetch_add(new_size as isize - l.size() as isize, Ordering::SeqCst);
        if new_size > l.size() {
            TOTAL_ALLOCATED.fetch_add(new_size - l.size(), Ordering::SeqCst);
        }
        log(new_size);
        let q = System.realloc(p, l, new_size);
        if !q.is_null() && new_size > l.size() {
            core::ptr::write_bytes(q.add(l.size()), 0xA5, new_size - l.size());
        }
        q
    }
}

pub fn live() -> (isize, isize) {
    (LIVE_BYTES.load(Ordering::SeqCst), LIVE_BLOCKS.load(Ordering::SeqCst))
}
pub fn total() -> usize {
    TOTAL_ALLOCATED.load(Ordering::SeqCst)
}
/// number of memory mappings of this process
pub fn maps() -> usize {
    std::fs::read_to_string("/proc/self/maps").map(|s| s.lines().count()).unwrap_or(0)
}
/// open file descriptors of this process
pub fn fds() -> usize {
    std::fs::read_dir("/proc/self/fd").map(|d| d.count()).unwrap_or(0)
}
