//! Counting global allocator: live bytes / live blocks, to observe leaks and the memory
//! allocated by a deserialization.
use std::alloc::{GlobalAlloc, Layout, System};
use std::sync::atomic::{AtomicIsize, AtomicUsize, Ordering};

pub struct Counting;
pub static LIVE_BYTES: AtomicIsize = AtomicIsize::new(0);
pub static LIVE_BLOCKS: AtomicIsize = AtomicIsize::new(0);
pub static TOTAL_ALLOCATED: AtomicUsize = AtomicUsize::new(0);

unsafe impl GlobalAlloc for Counting {
    unsafe fn alloc(&self, l: Layout) -> *mut u8 {
        LIVE_BYTES.fetch_add(l.size() as isize, Ordering::SeqCst);
        LIVE_BLOCKS.fetch_add(1, Ordering::SeqCst);
        TOTAL_ALLOCATED.fetch_add(l.size(), Ordering::SeqCst);
        System.alloc(l)
    }
    unsafe fn dealloc(&self, p: *mut u8, l: Layout) {
        LIVE_BYTES.fetch_sub(l.size() as isize, Ordering::SeqCst);
        LIVE_BLOCKS.fetch_sub(1, Ordering::SeqCst);
        System.dealloc(p, l)
    }
    unsafe fn realloc(&self, p: *mut u8, l: Layout, new_size: usize) -> *mut u8 {
        LIVE_BYTES.fetch_add(new_size as isize - l.size() as isize, Ordering::SeqCst);
        if new_size > l.size() {
            TOTAL_ALLOCATED.fetch_add(new_size - l.size(), Ordering::SeqCst);
        }
        System.realloc(p, l, new_size)
    }
}

pub fn live() -> (isize, isize) {
    (LIVE_BYTES.load(Ordering::SeqCst), LIVE_BLOCKS.load(Ordering::SeqCst))
}
pub fn total() -> usize {
    TOTAL_ALLOCATED.load(Ordering::SeqCst)
}
/// number of memory mappings of this process
pub fn maps() -> usize {
    std::fs::read_to_string("/proc/self/maps").map(|s| s.lines().count()).unwrap_or(0)
}
/// open file descriptors of this process
pub fn fds() -> usize {
    std::fs::read_dir("/proc/self/fd").map(|d| d.count()).unwrap_or(0)
}
