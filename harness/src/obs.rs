//! Canonical observation of values: the same text the model driver prints with `show_val`.
//!   n<hex> | b<hex> | [v,...] | t<k>[v,...] | &<K><off>+<nbytes>x<count>:<v>
//! Borrowed parts are printed with their offset into the input buffer registered by `set_buf`.
use core::marker::PhantomData;
use core::num::*;
use core::ops::*;
use std::cell::Cell;

thread_local! {
    static BUF: Cell<(usize, usize)> = Cell::new((0, 0));
}

pub fn set_buf(base: usize, len: usize) {
    BUF.with(|b| b.set((base, len)));
}

fn refhdr(kind: char, ptr: usize, nbytes: usize, count: usize, align: usize, out: &mut String) {
    if ptr % align != 0 {
        out.push_str("MISALIGNED");
    }
    if nbytes == 0 {
        out.push_str(&format!("&{}zst+0x{:x}:", kind, count));
        return;
    }
    let (base, len) = BUF.with(|b| b.get());
    if ptr >= base && ptr + nbytes <= base + len {
        out.push_str(&format!("&{}{:x}+{:x}x{:x}:", kind, ptr - base, nbytes, count));
    } else {
        out.push_str(&format!("&{}OUTSIDE+{:x}x{:x}:", kind, nbytes, count));
    }
}

pub trait Obs {
    fn obs(&self, out: &mut String);
}

pub fn show<T: Obs + ?Sized>(v: &T) -> String {
    let mut s = String::new();
    v.obs(&mut s);
    s
}

macro_rules! obs_int {
    ($($t:ty => $u:ty),*) => {$(
        impl Obs for $t { fn obs(&self, out: &mut String) { out.push_str(&format!("n{:x}", *self as $u)); } }
    )*};
}
obs_int!(u8 => u8, u16 => u16, u32 => u32, u64 => u64, u128 => u128, usize => usize,
         i8 => u8, i16 => u16, i32 => u32, i64 => u64, i128 => u128, isize => usize);

macro_rules! obs_nz {
    ($($t:ty => $u:ty),*) => {$(
        impl Obs for $t { fn obs(&self, out: &mut String) { out.push_str(&format!("n{:x}", self.get() as $u)); } }
    )*};
}
obs_nz!(NonZeroU8 => u8, NonZeroU16 => u16, NonZeroU32 => u32, NonZeroU64 => u64, NonZeroU128 => u128, NonZeroUsize => usize,
        NonZeroI8 => u8, NonZeroI16 => u16, NonZeroI32 => u32, NonZeroI64 => u64, NonZeroI128 => u128, NonZeroIsize => usize);

impl Obs for f32 { fn obs(&self, out: &mut String) { out.push_str(&format!("n{:x}", self.to_bits())); } }
impl Obs for f64 { fn obs(&self, out: &mut String) { out.push_str(&format!("n{:x}", self.to_bits())); } }
impl Obs for bool { fn obs(&self, out: &mut String) { out.push_str(if *self { "n1" } else { "n0" }); } }
impl Obs for char { fn obs(&self, out: &mut String) { out.push_str(&format!("n{:x}", *self as u32)); } }
impl Obs for () { fn obs(&self, out: &mut String) { out.push_str("[]"); } }
impl<T: ?Sized> Obs for PhantomData<T> { fn obs(&self, out: &mut String) { out.push_str("[]"); } }
impl Obs for RangeFull { fn obs(&self, out: &mut String) { out.push_str("[]"); } }

fn hexs(b: &[u8], out: &mut String) {
    out.push('b');
    for x in b { out.push_str(&format!("{:02x}", x)); }
}
impl Obs for String { fn obs(&self, out: &mut String) { hexs(self.as_bytes(), out); } }
impl Obs for Box<str> { fn obs(&self, out: &mut String) { hexs(self.as_bytes(), out); } }
impl<'a> Obs for &'a str {
    fn obs(&self, out: &mut String) {
        refhdr('T', self.as_ptr() as usize, self.len(), self.len(), 1, out);
        hexs(self.as_bytes(), out);
    }
}

fn seq<T: Obs>(s: &[T], out: &mut String) {
    out.push('[');
    for (i, x) in s.iter().enumerate() {
        if i > 0 { out.push(','); }
        x.obs(out);
    }
    out.push(']');
}
impl<T: Obs> Obs for Vec<T> { fn obs(&self, out: &mut String) { seq(self, out); } }
impl<T: Obs> Obs for Box<[T]> { fn obs(&self, out: &mut String) { seq(self, out); } }
impl<T: Obs, const N: usize> Obs for [T; N] { fn obs(&self, out: &mut String) { seq(self, out); } }
impl<'a, T: Obs> Obs for &'a [T] {
    fn obs(&self, out: &mut String) {
        refhdr('S', self.as_ptr() as usize, core::mem::size_of_val::<[T]>(self), self.len(), core::mem::align_of::<T>(), out);
        seq(self, out);
    }
}
impl<'a, T: Obs> Obs for &'a T {
    fn obs(&self, out: &mut String) {
        refhdr('O', *self as *const T as usize, core::mem::size_of::<T>(), 1, core::mem::align_of::<T>(), out);
        (**self).obs(out);
    }
}

macro_rules! obs_tuple {
    ($($n:tt $t:ident),*) => {
        impl<$($t: Obs),*> Obs for ($($t,)*) {
            fn obs(&self, out: &mut String) {
                out.push('[');
                let mut first = true;
                $( if !first { out.push(','); } first = false; self.$n.obs(out); )*
                let _ = first;
                out.push(']');
            }
        }
    };
}
obs_tuple!(0 A);
obs_tuple!(0 A, 1 B);
obs_tuple!(0 A, 1 B, 2 C);
obs_tuple!(0 A, 1 B, 2 C, 3 D);
obs_tuple!(0 A, 1 B, 2 C, 3 D, 4 E);
obs_tuple!(0 A, 1 B, 2 C, 3 D, 4 E, 5 F);
obs_tuple!(0 A, 1 B, 2 C, 3 D, 4 E, 5 F, 6 G);
obs_tuple!(0 A, 1 B, 2 C, 3 D, 4 E, 5 F, 6 G, 7 H);
obs_tuple!(0 A, 1 B, 2 C, 3 D, 4 E, 5 F, 6 G, 7 H, 8 I);
obs_tuple!(0 A, 1 B, 2 C, 3 D, 4 E, 5 F, 6 G, 7 H, 8 I, 9 J);
obs_tuple!(0 A, 1 B, 2 C, 3 D, 4 E, 5 F, 6 G, 7 H, 8 I, 9 J, 10 K);
obs_tuple!(0 A, 1 B, 2 C, 3 D, 4 E, 5 F, 6 G, 7 H, 8 I, 9 J, 10 K, 11 L);

impl<T: Obs> Obs for Option<T> {
    fn obs(&self, out: &mut String) {
        match self {
            None => out.push_str("t0[]"),
            Some(x) => { out.push_str("t1["); x.obs(out); out.push(']'); }
        }
    }
}
impl<T: Obs> Obs for Bound<T> {
    fn obs(&self, out: &mut String) {
        match self {
            Bound::Unbounded => out.push_str("t0[]"),
            Bound::Included(x) => { out.push_str("t1["); x.obs(out); out.push(']'); }
            Bound::Excluded(x) => { out.push_str("t2["); x.obs(out); out.push(']'); }
        }
    }
}
impl<B: Obs, C: Obs> Obs for ControlFlow<B, C> {
    fn obs(&self, out: &mut String) {
        match self {
            ControlFlow::Break(x) => { out.push_str("t0["); x.obs(out); out.push(']'); }
            ControlFlow::Continue(x) => { out.push_str("t1["); x.obs(out); out.push(']'); }
        }
    }
}
impl<T: Obs> Obs for Range<T> {
    fn obs(&self, out: &mut String) { out.push('['); self.start.obs(out); out.push(','); self.end.obs(out); out.push(']'); }
}
impl<T: Obs> Obs for RangeFrom<T> {
    fn obs(&self, out: &mut String) { out.push('['); self.start.obs(out); out.push(']'); }
}
impl<T: Obs> Obs for RangeTo<T> {
    fn obs(&self, out: &mut String) { out.push('['); self.end.obs(out); out.push(']'); }
}
impl<T: Obs> Obs for RangeToInclusive<T> {
    fn obs(&self, out: &mut String) { out.push('['); self.end.obs(out); out.push(']'); }
}
impl<T: Obs> Obs for RangeInclusive<T> {
    fn obs(&self, out: &mut String) {
        out.push('[');
        self.start().obs(out);
        out.push(',');
        self.end().obs(out);
        out.push(',');
        out.push_str(if matches!(self.end_bound(), Bound::Excluded(_)) { "n1" } else { "n0" });
        out.push(']');
    }
}
