//! Hex helpers for the line protocol shared with the model driver.
pub fn hex(bytes: &[u8]) -> String {
    let mut s = String::with_capacity(bytes.len() * 2);
    for b in bytes {
        s.push_str(&format!("{:02x}", b));
    }
    s
}
pub fn unhex(s: &str) -> Vec<u8> {
    (0..s.len() / 2)
        .map(|i| u8::from_str_radix(&s[2 * i..2 * i + 2], 16).unwrap())
        .collect()
}
pub fn parse_u64(s: &str) -> u64 {
    u64::from_str_radix(s, 16).unwrap()
}
pub fn parse_i64(s: &str) -> i64 {
    if let Some(r) = s.strip_prefix('-') {
        (-(i128::from_str_radix(r, 16).unwrap())) as i64
    } else {
        i128::from_str_radix(s, 16).unwrap() as i64
    }
}
