//! Loaders campaign (C08, C09): store a value, load it back with every loader and flag set, look at
//! the backing region through the verification hooks, move the result around, and measure what is
//! left behind after success and after failure.
use crate::alloc::{fds, live, maps};
use crate::codec::{ser_obs, show_err};
use crate::hexu::hex;
use crate::obs::*;
use epserde::deser::{DeserType, Deserialize, Flags, MemCase};
use epserde::ser::Serialize;
use epserde::traits::{AlignHash, TypeHash};
use std::panic::{catch_unwind, AssertUnwindSafe};

fn anyhow_code(e: &anyhow::Error) -> String {
    match e.downcast_ref::<epserde::deser::Error>() {
        Some(d) => show_err(d),
        None => "IoError".to_string(),
    }
}

fn anyhow_class(e: &anyhow::Error) -> &'static str {
    use epserde::deser::Error::*;
    match e.downcast_ref::<epserde::deser::Error>() {
        Some(ReadError) => "ReadError",
        Some(AlignmentError) => "AlignmentError",
        Some(WrongTypeHash { .. }) => "WrongTypeHash",
        Some(WrongAlignHash { .. }) => "WrongAlignHash",
        Some(MagicCookieError(_)) => "MagicCookieError",
        Some(_) => "OtherDeserError",
        None => "IoError",
    }
}

/// the thread-stack cache of the C library keeps mappings alive: fill it before measuring
fn warm_up() {
    for _ in 0..3 {
        let _ = std::thread::spawn(|| 1).join();
        std::thread::scope(|s| { s.spawn(|| 1); });
    }
}

fn region_obs<T>(mc: &MemCase<T>, file_len: usize, expect_cap: usize, align: usize, zero_tail: bool) -> String {
    match mc.verif_backing_range() {
        None => "NOREGION".into(),
        Some((addr, len)) => {
            let mut s = String::new();
            if addr % align != 0 {
                s.push_str("MISALIGNED-REGION,");
            }
            if len != expect_cap {
                s.push_str(&format!("LEN{}!={},", len, expect_cap));
            }
            if zero_tail {
                let tail = unsafe { core::slice::from_raw_parts((addr + file_len) as *const u8, len - file_len) };
                if tail.iter().any(|b| *b != 0) {
                    s.push_str("NONZERO-TAIL,");
                }
            }
            if s.is_empty() { "ok".into() } else { s }
        }
    }
}

/// value observed through a MemCase, with borrowed parts located inside the backing region
fn case_obs<T: Obs>(mc: &MemCase<T>) -> String {
    if let Some((addr, len)) = mc.verif_backing_range() {
        set_buf(addr, len);
    }
    let t: &T = mc;
    // Deref and AsRef hand out the same structure
    let t2: &T = mc.as_ref();
    if !core::ptr::eq(t, t2) {
        return "DEREF-AND-ASREF-DIFFER".into();
    }
    crate::codec::erase_refs_checked(&show(t))
}

pub fn load_case<S: Serialize, D: Deserialize + TypeHash + AlignHash + Obs + 'static>(cid: &str, mk: &dyn Fn() -> S, ops: &[String], out: &mut String)
where
    DeserType<'static, D>: Obs + Send + Sync + 'static,
{
    if !ops.iter().any(|o| o == "load") {
        return;
    }
    warm_up();
    let v = mk();
    let reference = match ser_obs(&v).1 { Some(b) => b, None => return };
    let dir = std::env::temp_dir().join(format!("evl_{}_{}", std::process::id(), cid));
    let _ = std::fs::create_dir_all(&dir);
    let path = dir.join("value.bin");
    let mut parts: Vec<String> = vec![];
    // store: the file is exactly the serialized stream
    let (l0, m0, f0) = (live(), maps(), fds());
    let sr = catch_unwind(AssertUnwindSafe(|| v.store(&path)));
    let file = std::fs::read(&path).unwrap_or_default();
    parts.push(format!("store={}", match sr { Ok(Ok(())) => if file == reference { "same".to_string() } else { format!("DIFFERENT(len {} vs {})", file.len(), reference.len()) }, Ok(Err(_)) => "ERR".into(), Err(_) => "PANIC".into() }));
    // storing over an existing longer file must leave exactly the stream as well
    let _ = std::fs::write(&path, vec![0xABu8; reference.len() + 777]);
    let _ = catch_unwind(AssertUnwindSafe(|| v.store(&path)));
    let file2 = std::fs::read(&path).unwrap_or_default();
    parts.push(format!("restore={}", if file2 == reference { "same" } else { "DIFFERENT" }));
    let n = reference.len();
    // load_full
    let lf = catch_unwind(AssertUnwindSafe(|| D::load_full(&path)));
    parts.push(format!("full={}", match lf {
        Ok(Ok(x)) => {
            set_buf(0, 0);
            let shown = show(&x);
            // a fully loaded structure encased without backend: same structure, no backing region
            let enc = MemCase::encase(x);
            let enc2: MemCase<_> = MemCase::from(0u8);
            let same = enc.verif_backing_range().is_none() && enc2.verif_backing_range().is_none() && show(&*enc) == shown && *enc2 == 0 && Flags::default() == Flags::empty();
            if same { format!("OK:{}", shown) } else { "ENCASE-DIFFERS".to_string() }
        }
        Ok(Err(e)) => format!("E:{}", anyhow_code(&e)),
        Err(_) => "P".into(),
    }));
    let _ = (l0, m0, f0);
    // the three loaders that keep a backing region, every flag set
    for bits in 0u32..8 {
        let flags = Flags::from_bits_truncate(bits);
        for (name, which) in [("mem", 0), ("lmmap", 1), ("mmap", 2)] {
            if which == 0 && bits != 0 {
                continue;
            }
            // a difference is confirmed by repeating the load: growth of the allocator's own
            // structures (heap top, arenas) happens once, a leak every time
            let mut attempt = || {
                let before = (live(), maps(), fds());
                let r = catch_unwind(AssertUnwindSafe(|| -> Result<String, String> {
                    let mc: MemCase<DeserType<'static, D>> = match which {
                        0 => D::load_mem(&path),
                        1 => D::load_mmap(&path, flags),
                        _ => D::mmap(&path, flags),
                    }
                    .map_err(|e| anyhow_code(&e))?;
                    let (cap, align, zt) = match which {
                        0 => ((n + 63) / 64 * 64, 64, true),
                        1 => ((n + 15) / 16 * 16, 4096, true),
                        _ => (n, 4096, false),
                    };
                    let reg = region_obs(&mc, n, cap, align, zt);
                    let a = case_obs(&mc);
                    // moved, boxed, read from another thread, sent to another thread
                    let moved = mc;
                    let b = case_obs(&moved);
                    let boxed = Box::new(moved);
                    let c = case_obs(&boxed);
                    let d = std::thread::scope(|s| s.spawn(|| case_obs(&boxed)).join().unwrap());
                    let e = std::thread::spawn(move || case_obs(&boxed)).join().unwrap_or_else(|_| "THREAD-PANIC".into());
                    let stable = a == b && b == c && c == d && d == e;
                    Ok(format!("OK:{}|region={}|moves={}", a, reg, if stable { "same" } else { "DIFFERENT" }))
                }));
                // the panic payload is dropped before measuring
                let r: Result<Result<String, String>, ()> = r.map_err(|_| ());
                let after = (live(), maps(), fds());
                // the only thing that may stay allocated is the String this observation returned
                let mine = match &r { Ok(Ok(s)) => (s.capacity() as isize, 1), Ok(Err(s)) => (s.capacity() as isize, if s.capacity() > 0 { 1 } else { 0 }), Err(_) => (0, 0) };
                let delta = ((after.0).0 - (before.0).0 - mine.0, (after.0).1 - (before.0).1 - mine.1, after.1 as isize - before.1 as isize, after.2 as isize - before.2 as isize);
                let res = match r { Ok(Ok(s)) => s, Ok(Err(e)) => format!("E:{}", e), Err(_) => "P".into() };
                (res, delta)
            };
            let (res, mut delta) = attempt();
            if delta != (0, 0, 0, 0) {
                let (_res2, d2) = attempt();
                let (_res3, d3) = attempt();
                if d2 == (0, 0, 0, 0) || d3 == (0, 0, 0, 0) {
                    delta = (0, 0, 0, 0);
                } else {
                    delta = d3;
                }
            }
            let leak = if delta == (0, 0, 0, 0) { "".to_string() } else { format!("|LEAK({};{};{};{})", delta.0, delta.1, delta.2, delta.3) };
            parts.push(format!("{}{}={}{}", name, bits, res, leak));
        }
    }
    // failing loads leave nothing behind: wrong type, corrupted header, truncated files
    let mut fails = vec![];
    let fail_path = |label: &str, p2: &std::path::Path, fails: &mut Vec<String>| {
        for (name, which) in [("full", 3), ("mem", 0), ("lmmap", 1), ("mmap", 2)] {
            let attempt = || {
                let before = (live(), maps(), fds());
                let r = catch_unwind(AssertUnwindSafe(|| -> Result<(), &'static str> {
                    match which {
                        3 => { D::load_full(p2).map_err(|e| anyhow_class(&e))?; }
                        0 => { D::load_mem(p2).map_err(|e| anyhow_class(&e))?; }
                        1 => { D::load_mmap(p2, Flags::empty()).map_err(|e| anyhow_class(&e))?; }
                        _ => { D::mmap(p2, Flags::empty()).map_err(|e| anyhow_class(&e))?; }
                    }
                    Ok(())
                }));
                let r: Result<Result<(), &'static str>, ()> = r.map_err(|_| ());
                let after = (live(), maps(), fds());
                let res = match r { Ok(Ok(())) => "OK".to_string(), Ok(Err(e)) => format!("E:{}", e), Err(_) => "P".into() };
                let leak = if after == before { "".to_string() } else { format!("|LEAK({};{};{};{})", (after.0).0 - (before.0).0, (after.0).1 - (before.0).1, after.1 as isize - before.1 as isize, after.2 as isize - before.2 as isize) };
                (res, leak)
            };
            let (res, mut leak) = attempt();
            if !leak.is_empty() {
                let (_r2, l2) = attempt();
                let (_r3, l3) = attempt();
                leak = if l2.is_empty() || l3.is_empty() { String::new() } else { l3 };
            }
            fails.push(format!("{}.{}={}{}", label, name, res, leak));
        }
    };
    let fail_with = |label: &str, bytes: &[u8], fails: &mut Vec<String>| {
        let p2 = dir.join("bad.bin");
        let _ = std::fs::write(&p2, bytes);
        fail_path(label, &p2, fails);
    };
    let mut wrong = reference.clone();
    wrong[14] ^= 0x40; // another type hash: a file of a different type
    fail_with("wrongtype", &wrong, &mut fails);
    let mut corrupt = reference.clone();
    corrupt[3] ^= 1;
    fail_with("magic", &corrupt, &mut fails);
    for k in [0usize, 5, 36, n / 2, n.saturating_sub(1)] {
        if k < n {
            fail_with(&format!("cut{}", k), &reference[..k], &mut fails);
        }
    }
    // a path that can be opened and reports a length but cannot be read (a directory), and a
    // path that does not exist: the loaders fail while acquiring or filling the backing memory
    let sub = dir.join("subdir");
    let _ = std::fs::create_dir_all(sub.join("inner"));
    fail_path("isdir", &sub, &mut fails);
    fail_path("missing", &dir.join("no-such-file.bin"), &mut fails);
    let _ = std::fs::remove_dir_all(&dir);
    out.push_str(&format!("{} load {} fails={}\n", cid, parts.join(" "), fails.join(",")));
    let _ = hex(&[]);
}

/// the translation of every flag set (finite domain)
pub fn flags_obs() -> String {
    (0u32..8).map(|b| format!("{}>{:x}", b, Flags::from_bits_truncate(b).verif_mmap_flag_bits())).collect::<Vec<_>>().join(",")
}
