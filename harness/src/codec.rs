//! Codec campaign, implementation side: generic drivers called by the generated cases.
use crate::hexu::hex;
use crate::obs::*;
use epserde::deser::{self, DeserType, Deserialize, ReadWithPos, SliceWithPos};
use epserde::traits::{AlignHash, TypeHash};
use epserde::ser::{self, Serialize};
use std::io::{Read, Write};
use std::panic::{catch_unwind, AssertUnwindSafe};

/// Records every write_all call (one chunk each) and the flush.
#[derive(Default)]
pub struct RecWriter {
    pub bytes: Vec<u8>,
    pub chunks: Vec<usize>,
    pub flushed: usize,
}
impl Write for RecWriter {
    fn write(&mut self, buf: &[u8]) -> std::io::Result<usize> {
        self.bytes.extend_from_slice(buf);
        self.chunks.push(buf.len());
        Ok(buf.len())
    }
    fn write_all(&mut self, buf: &[u8]) -> std::io::Result<()> {
        self.bytes.extend_from_slice(buf);
        self.chunks.push(buf.len());
        Ok(())
    }
    fn flush(&mut self) -> std::io::Result<()> {
        self.flushed += 1;
        Ok(())
    }
}

/// A reader that implements only `read` and counts what it delivered.
pub struct CountReader<'a> {
    pub data: &'a [u8],
    pub pos: usize,
}
impl Read for CountReader<'_> {
    fn read(&mut self, buf: &mut [u8]) -> std::io::Result<usize> {
        let n = buf.len().min(self.data.len() - self.pos);
        buf[..n].copy_from_slice(&self.data[self.pos..self.pos + n]);
        self.pos += n;
        Ok(n)
    }
}

pub fn show_err(e: &deser::Error) -> String {
    use deser::Error::*;
    match e {
        ReadError => "ReadError".into(),
        AlignmentError => "AlignmentError".into(),
        InvalidTag(t) => format!("InvalidTag:{:x}", t),
        MagicCookieError(m) => format!("MagicCookieError:{:x}", m),
        EndiannessError => "EndiannessError".into(),
        MajorVersionMismatch(m) => format!("MajorVersionMismatch:{:x}", m),
        MinorVersionMismatch(m) => format!("MinorVersionMismatch:{:x}", m),
        UsizeSizeMismatch(m) => format!("UsizeSizeMismatch:{:x}", m),
        WrongTypeHash { ser_type_hash, .. } => format!("WrongTypeHash:{:x}", ser_type_hash),
        WrongAlignHash { ser_align_hash, .. } => format!("WrongAlignHash:{:x}", ser_align_hash),
        FileOpenError(_) => "FileOpenError".into(),
    }
}

pub fn show_ser_err(e: &ser::Error) -> String {
    match e {
        ser::Error::WriteError => "WriteError".into(),
        ser::Error::FileOpenError(_) => "FileOpenError".into(),
        ser::Error::IteratorLengthMismatch { actual, expected } => {
            format!("IteratorLengthMismatch:{:x}:{:x}", actual, expected)
        }
    }
}

/// A buffer whose start is aligned to 64 KiB, in which streams are placed at chosen residues.
pub struct Arena {
    raw: Vec<u8>,
    off: usize,
}
impl Arena {
    pub fn new(cap: usize) -> Self {
        let raw = vec![0u8; cap + (1 << 17)];
        let a = raw.as_ptr() as usize;
        let off = ((a + 0xffff) & !0xffff) - a;
        Arena { raw, off }
    }
    pub fn base(&self) -> usize {
        self.raw.as_ptr() as usize + self.off
    }
    /// copy `data` at residue `r` and return the placed slice
    pub fn place(&mut self, r: usize, data: &[u8]) -> &[u8] {
        let s = self.off + r;
        self.raw[s..s + data.len()].copy_from_slice(data);
        &self.raw[s..s + data.len()]
    }
}

pub fn ser_obs<S: Serialize>(v: &S) -> (String, Option<Vec<u8>>) {
    let mut w = RecWriter::default();
    let r = catch_unwind(AssertUnwindSafe(|| v.serialize(&mut w)));
    let chunks: String = w.chunks.iter().map(|c| format!("{},", c)).collect::<String>()
        + &"F,".repeat(w.flushed);
    match r {
        Ok(Ok(n)) => (
            format!("OK n={:x} bytes={} chunks={}", n, hex(&w.bytes), chunks),
            Some(w.bytes),
        ),
        Ok(Err(e)) => (format!("ERR {} n={:x} bytes={} chunks={}", show_ser_err(&e), w.bytes.len(), hex(&w.bytes), chunks), None),
        Err(_) => (format!("PANIC n={:x} bytes={} chunks={}", w.bytes.len(), hex(&w.bytes), chunks), None),
    }
}

pub fn full_obs<D: Deserialize + Obs>(bytes: &[u8]) -> String {
    let mut r = CountReader { data: bytes, pos: 0 };
    let res = catch_unwind(AssertUnwindSafe(|| D::deserialize_full(&mut r)));
    match res {
        Ok(Ok(v)) => {
            set_buf(0, 0);
            format!("OK {} pos={:x} rest={}", show(&v), r.pos, bytes.len() - r.pos)
        }
        Ok(Err(e)) => format!("ERR {}", show_err(&e)),
        Err(_) => "PANIC".into(),
    }
}

pub fn eps_obs<D: Deserialize + TypeHash + AlignHash>(placed: &[u8]) -> String
where
    for<'a> DeserType<'a, D>: Obs,
{
    set_buf(placed.as_ptr() as usize, placed.len());
    let res = catch_unwind(AssertUnwindSafe(|| {
        let mut b = SliceWithPos::new(placed);
        match deser::check_header::<D>(&mut b) {
            Err(e) => Err(e),
            Ok(()) => match D::_deserialize_eps_inner(&mut b) {
                Err(e) => Err(e),
                Ok(v) => Ok((show(&v), b.pos(), b.data.len())),
            },
        }
    }));
    // the public entry point must agree with the pieces it is made of
    let res2 = catch_unwind(AssertUnwindSafe(|| match D::deserialize_eps(placed) {
        Ok(v) => format!("OK {}", show(&v)),
        Err(e) => format!("ERR {}", show_err(&e)),
    }));
    let s = match res {
        Ok(Ok((s, pos, rest))) => format!("OK {} pos={:x} rest={}", s, pos, rest),
        Ok(Err(e)) => format!("ERR {}", show_err(&e)),
        Err(_) => "PANIC".into(),
    };
    let s2 = res2.unwrap_or_else(|_| "PANIC".into());
    let agree = if s.starts_with("OK") { s.starts_with(&s2) } else { s == s2 };
    if agree { s } else { format!("ENTRYPOINT-DISAGREES {} // {}", s, s2) }
}

pub fn hdr_obs(bytes: &[u8]) -> String {
    // magic 8, major 2, minor 2, usize 1, type hash 8, align hash 8, name len 8, name
    let th = u64::from_le_bytes(bytes[13..21].try_into().unwrap());
    let ah = u64::from_le_bytes(bytes[21..29].try_into().unwrap());
    let nl = u64::from_le_bytes(bytes[29..37].try_into().unwrap()) as usize;
    format!("th={:x} ah={:x} name={}", th, ah, hex(&bytes[37..37 + nl]))
}

pub fn erase_refs(s: &str) -> String {
    let mut out = String::with_capacity(s.len());
    let mut skipping = false;
    for c in s.chars() {
        if skipping {
            if c == ':' {
                skipping = false;
            }
        } else if c == '&' {
            skipping = true;
        } else {
            out.push(c);
        }
    }
    out
}

fn rle(codes: &[String]) -> String {
    let mut out = String::new();
    let mut i = 0;
    while i < codes.len() {
        let mut j = i;
        while j < codes.len() && codes[j] == codes[i] {
            j += 1;
        }
        out.push_str(&format!("{}*{} ", codes[i], j - i));
        i = j;
    }
    out
}

fn class_of(s: &str) -> String {
    if s.starts_with("OK") {
        "OK".into()
    } else if let Some(e) = s.strip_prefix("ERR ") {
        e.to_string()
    } else if s.starts_with("PANIC") {
        "P".into()
    } else {
        s.to_string()
    }
}

/// "OK <canon> pos=.." -> "OK:<canon>", "ERR x" -> "E:x", "PANIC" -> "P"
fn code_of(s: &str, erase: bool) -> String {
    if let Some(r) = s.strip_prefix("OK ") {
        let v = r.split(" pos=").next().unwrap_or("");
        format!("OK:{}", if erase { erase_refs(v) } else { v.to_string() })
    } else if let Some(e) = s.strip_prefix("ERR ") {
        format!("E:{}", e)
    } else if s.starts_with("PANIC") {
        "P".into()
    } else {
        s.to_string()
    }
}

pub struct SchemaObs {
    pub line: String,
    pub rows: Vec<(String, usize, usize, usize)>,
}

pub fn schema_obs<S: Serialize>(v: &S, plain: &Option<Vec<u8>>) -> SchemaObs {
    let mut w = RecWriter::default();
    let r = catch_unwind(AssertUnwindSafe(|| v.serialize_with_schema(&mut w)));
    match r {
        Ok(Ok(schema)) => {
            let rows: Vec<(String, usize, usize, usize)> = schema
                .0
                .iter()
                .map(|r| (r.field.clone(), r.offset, r.size, r.align))
                .collect();
            let txt: Vec<String> = rows
                .iter()
                .map(|(f, o, s, a)| format!("{}|{:x}|{:x}|{:x}", f, o, s, a))
                .collect();
            let same = match plain {
                Some(b) => *b == w.bytes,
                None => false,
            };
            let csv = catch_unwind(AssertUnwindSafe(|| schema.to_csv().len())).is_ok();
            let dbg = catch_unwind(AssertUnwindSafe(|| schema.debug(&w.bytes).len())).is_ok();
            SchemaObs {
                line: format!(
                    "OK rows={} csv={} debug={} same={}",
                    txt.join(";"),
                    if csv { "ok" } else { "panic" },
                    if dbg { "ok" } else { "panic" },
                    if same { "y" } else { "n" }
                ),
                rows,
            }
        }
        Ok(Err(e)) => SchemaObs { line: format!("ERR {}", show_ser_err(&e)), rows: vec![] },
        Err(_) => SchemaObs { line: "PANIC".into(), rows: vec![] },
    }
}

/// Run the requested observations for one case. `S` is the serialized type, `D` its SerType.
pub fn run_case<S: Serialize, D: Deserialize + TypeHash + AlignHash + Obs>(cid: &str, mk: &dyn Fn() -> S, ops: &[String], arena: &mut Arena, out: &mut String)
where
    for<'a> DeserType<'a, D>: Obs,
{
    // a fresh value for every serialization: iterators are consumed by serializing them
    let (ser_line, bytes) = ser_obs(&mk());
    for op in ops {
        let mut it = op.splitn(2, ':');
        let k = it.next().unwrap();
        let arg = it.next().unwrap_or("");
        match k {
            "ser" => out.push_str(&format!("{} ser {}\n", cid, ser_line)),
            "hdr" => {
                if let Some(b) = &bytes {
                    out.push_str(&format!("{} hdr {}\n", cid, hdr_obs(b)));
                }
            }
            "full" => {
                if let Some(b) = &bytes {
                    out.push_str(&format!("{} full {}\n", cid, full_obs::<D>(b)));
                }
            }
            "eps" => {
                if let Some(b) = &bytes {
                    let r = usize::from_str_radix(arg, 16).unwrap();
                    let placed = arena.place(r, b);
                    out.push_str(&format!("{} eps:{} {}\n", cid, arg, eps_obs::<D>(placed)));
                }
            }
            "schema" => {
                let so = schema_obs(&mk(), &bytes);
                out.push_str(&format!("{} schema {}\n", cid, so.line));
            }
            "cuts" => {
                if let Some(b) = &bytes {
                    let mut fc = vec![];
                    let mut ec = vec![];
                    // the full stream stays behind each prefix: a read past the prefix would succeed
                    arena.place(0, b);
                    for k in 0..b.len() {
                        fc.push(class_of(&full_obs::<D>(&b[..k])));
                        let placed = &arena.place(0, b)[..k];
                        ec.push(class_of(&eps_obs::<D>(placed)));
                    }
                    out.push_str(&format!("{} cuts full={} eps={}\n", cid, rle(&fc), rle(&ec)));
                }
            }
            "flips" => {
                if let Some(b) = &bytes {
                    let mut res = vec![];
                    let mut test = |tag: String, bs: &[u8], arena: &mut Arena| {
                        let f = code_of(&full_obs::<D>(bs), false);
                        let placed = arena.place(0, bs);
                        let e = code_of(&eps_obs::<D>(placed), true);
                        res.push(format!("{}={}", tag, if f == e { f } else { format!("{}//{}", f, e) }));
                    };
                    for i in 0..29 * 8 {
                        let mut m = b.clone();
                        m[i / 8] ^= 1 << (i % 8);
                        test(i.to_string(), &m, arena);
                    }
                    let mut m = b.clone();
                    m[..8].reverse();
                    test("rev".into(), &m, arena);
                    for minor in [0u16, 1, 2, 255, 256, 65535] {
                        let mut m = b.clone();
                        m[10..12].copy_from_slice(&minor.to_le_bytes());
                        test(format!("minor{}", minor), &m, arena);
                    }
                    out.push_str(&format!("{} flips {}\n", cid, res.join(" ")));
                }
            }
            "place" => {
                if let Some(b) = &bytes {
                    let mut codes = vec![];
                    let mut misaligned = 0usize;
                    for r in 0..128usize {
                        let placed = arena.place(r, b);
                        let o = eps_obs::<D>(placed);
                        if o.contains("MISALIGNED") {
                            misaligned += 1;
                        }
                        codes.push(class_of(&o));
                    }
                    out.push_str(&format!("{} place {} misaligned={}\n", cid, rle(&codes), misaligned));
                }
            }
            "tags" => {
                // arg: comma separated number of valid tags for each tag position, in stream order
                if let Some(b) = &bytes {
                    let counts: Vec<u64> = arg.split(',').filter(|s| !s.is_empty()).map(|s| s.parse().unwrap()).collect();
                    let so = schema_obs(&mk(), &bytes);
                    let tagrows: Vec<&(String, usize, usize, usize)> = so
                        .rows
                        .iter()
                        .filter(|(f, _, s, _)| (f.ends_with(".Tag") && *s == 1) || (f.ends_with(".tag") && *s == 8))
                        .collect();
                    let mut parts = vec![];
                    if tagrows.len() != counts.len() {
                        parts.push(format!("TAGROWS-MISMATCH rows={} expected={}", tagrows.len(), counts.len()));
                    } else {
                        for (row, n) in tagrows.iter().zip(counts.iter()) {
                            let (_, off, size, _) = row;
                            let vals: Vec<u64> = if *size == 1 {
                                (*n..256).collect()
                            } else {
                                vec![*n, *n + 1, 255, 256, 1 << 32, 1 << 63, u64::MAX].into_iter().filter(|x| x >= n).collect()
                            };
                            let mut codes = vec![];
                            for val in vals {
                                let mut m = b.clone();
                                if *size == 1 {
                                    m[*off] = val as u8;
                                } else {
                                    m[*off..*off + 8].copy_from_slice(&val.to_le_bytes());
                                }
                                let f = code_of(&full_obs::<D>(&m), false);
                                let placed = arena.place(0, &m);
                                let e = code_of(&eps_obs::<D>(placed), true);
                                codes.push(format!("{:x}>{}", val, if f == e { f } else { format!("{}//{}", f, e) }));
                            }
                            parts.push(format!("@{:x}/{}:{}", off, size, codes.join(",")));
                        }
                    }
                    out.push_str(&format!("{} tags {}\n", cid, parts.join(" ")));
                }
            }
            _ => panic!("unknown op {}", op),
        }
    }
}

/// An exact-size iterator over a slice that announces `claimed` items (possibly a lie).
#[derive(Clone, Debug)]
pub struct LenIter<'a, T> {
    items: &'a [T],
    i: usize,
    claimed: usize,
}
impl<'a, T> LenIter<'a, T> {
    pub fn new(items: &'a [T], claimed: usize) -> Self {
        LenIter { items, i: 0, claimed }
    }
}
impl<'a, T> Iterator for LenIter<'a, T> {
    type Item = &'a T;
    fn next(&mut self) -> Option<&'a T> {
        let r = self.items.get(self.i);
        self.i += 1;
        r
    }
    fn size_hint(&self) -> (usize, Option<usize>) {
        (self.claimed, Some(self.claimed))
    }
}
impl<'a, T> ExactSizeIterator for LenIter<'a, T> {
    fn len(&self) -> usize {
        self.claimed
    }
}
