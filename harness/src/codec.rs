//! Codec campaign, implementation side: generic drivers called by the generated cases.
use crate::hexu::hex;
use crate::obs::*;
use epserde::deser::{self, DeserType, Deserialize, ReadWithPos, SliceWithPos};
use epserde::traits::{AlignHash, TypeHash};
use epserde::ser::{self, Serialize};
use std::io::{Read, Write};
use std::panic::{catch_unwind, AssertUnwindSafe};

/// Records every write_all call (one chunk each) and the flush.
#[derive(Default)]
pub struct RecWriter {
    pub bytes: Vec<u8>,
    pub chunks: Vec<usize>,
    pub flushed: usize,
}
impl Write for RecWriter {
    fn write(&mut self, buf: &[u8]) -> std::io::Result<usize> {
        self.bytes.extend_from_slice(buf);
        self.chunks.push(buf.len());
        Ok(buf.len())
    }
    fn write_all(&mut self, buf: &[u8]) -> std::io::Result<()> {
        self.bytes.extend_from_slice(buf);
        self.chunks.push(buf.len());
        Ok(())
    }
    fn flush(&mut self) -> std::io::Result<()> {
        self.flushed += 1;
        Ok(())
    }
}

/// A reader that implements only `read` and counts what it delivered.
pub struct CountReader<'a> {
    pub data: &'a [u8],
    pub pos: usize,
}
impl Read for CountReader<'_> {
    fn read(&mut self, buf: &mut [u8]) -> std::io::Result<usize> {
        let n = buf.len().min(self.data.len() - self.pos);
        buf[..n].copy_from_slice(&self.data[self.pos..self.pos + n]);
        self.pos += n;
        Ok(n)
    }
}

pub fn show_err(e: &deser::Error) -> String {
    use deser::Error::*;
    match e {
        ReadError => "ReadError".into(),
        AlignmentError => "AlignmentError".into(),
        InvalidTag(t) => format!("InvalidTag:{:x}", t),
        MagicCookieError(m) => format!("MagicCookieError:{:x}", m),
        EndiannessError => "EndiannessError".into(),
        MajorVersionMismatch(m) => format!("MajorVersionMismatch:{:x}", m),
        MinorVersionMismatch(m) => format!("MinorVersionMismatch:{:x}", m),
        UsizeSizeMismatch(m) => format!("UsizeSizeMismatch:{:x}", m),
        WrongTypeHash { ser_type_hash, .. } => format!("WrongTypeHash:{:x}", ser_type_hash),
        WrongAlignHash { ser_align_hash, .. } => format!("WrongAlignHash:{:x}", ser_align_hash),
        FileOpenError(_) => "FileOpenError".into(),
    }
}

pub fn show_ser_err(e: &ser::Error) -> String {
    match e {
        ser::Error::WriteError => "WriteError".into(),
        ser::Error::FileOpenError(_) => "FileOpenError".into(),
        ser::Error::IteratorLengthMismatch { actual, expected } => {
            format!("IteratorLengthMismatch:{:x}:{:x}", actual, expected)
        }
    }
}

/// A buffer whose start is aligned to 64 KiB, in which streams are placed at chosen residues.
pub struct Arena {
    raw: Vec<u8>,
    off: usize,
}
impl Arena {
    pub fn new(cap: usize) -> Self {
        let raw = vec![0u8; cap + (1 << 17)];
        let a = raw.as_ptr() as usize;
        let off = ((a + 0xffff) & !0xffff) - a;
        Arena { raw, off }
    }
    pub fn base(&self) -> usize {
        self.raw.as_ptr() as usize + self.off
    }
    /// copy `data` at residue `r` and return the placed slice
    pub fn place(&mut self, r: usize, data: &[u8]) -> &[u8] {
        let s = self.off + r;
        self.raw[s..s + data.len()].copy_from_slice(data);
        &self.raw[s..s + data.len()]
    }
}

pub fn ser_obs<S: Serialize>(v: &S) -> (String, Option<Vec<u8>>) {
    let mut w = RecWriter::default();
    let r = catch_unwind(AssertUnwindSafe(|| v.serialize(&mut w)));
    let chunks: String = w.chunks.iter().map(|c| format!("{},", c)).collect::<String>()
        + &"F,".repeat(w.flushed);
    match r {
        Ok(Ok(n)) => (
            format!("OK n={:x} bytes={} chunks={}", n, hex(&w.bytes), chunks),
            Some(w.bytes),
        ),
        Ok(Err(e)) => (format!("ERR {} n={:x} bytes={} chunks={}", show_ser_err(&e), w.bytes.len(), hex(&w.bytes), chunks), None),
        Err(_) => (format!("PANIC n={:x} bytes={} chunks={}", w.bytes.len(), hex(&w.bytes), chunks), None),
    }
}

pub fn full_obs<D: Deserialize + Obs>(bytes: &[u8]) -> String {
    let mut r = CountReader { data: bytes, pos: 0 };
    let res = catch_unwind(AssertUnwindSafe(|| D::deserialize_full(&mut r)));
    match res {
        Ok(Ok(v)) => {
            set_buf(0, 0);
            format!("OK {} pos={:x} rest={}", show(&v), r.pos, bytes.len() - r.pos)
        }
        Ok(Err(e)) => format!("ERR {}", show_err(&e)),
        Err(_) => "PANIC".into(),
    }
}

pub fn eps_obs<D: Deserialize + TypeHash + AlignHash>(placed: &[u8]) -> String
where
    for<'a> DeserType<'a, D>: Obs,
{
    set_buf(placed.as_ptr() as usize, placed.len());
    let res = catch_unwind(AssertUnwindSafe(|| {
        let mut b = SliceWithPos::new(placed);
        match deser::check_header::<D>(&mut b) {
            Err(e) => Err(e),
            Ok(()) => match D::_deserialize_eps_inner(&mut b) {
                Err(e) => Err(e),
                Ok(v) => Ok((show(&v), b.pos(), b.data.len())),
            },
        }
    }));
    // the public entry point must agree with the pieces it is made of
    let res2 = catch_unwind(AssertUnwindSafe(|| match D::deserialize_eps(placed) {
        Ok(v) => format!("OK {}", show(&v)),
        Err(e) => format!("ERR {}", show_err(&e)),
    }));
    let s = match res {
        Ok(Ok((s, pos, rest))) => format!("OK {} pos={:x} rest={}", s, pos, rest),
        Ok(Err(e)) => format!("ERR {}", show_err(&e)),
        Err(_) => "PANIC".into(),
    };
    let s2 = res2.unwrap_or_else(|_| "PANIC".into());
    let agree = if s.starts_with("OK") { s.starts_with(&s2) } else { s == s2 };
    if agree { s } else { format!("ENTRYPOINT-DISAGREES {} // {}", s, s2) }
}

/// The heap allocation requests made by ε-copy deserialization of the payload (the header check,
/// which reads the type name into a String, is outside the measured window).
pub fn alloc_obs<D: Deserialize + TypeHash + AlignHash>(placed: &[u8]) -> String {
    let res = catch_unwind(AssertUnwindSafe(|| {
        let mut b = SliceWithPos::new(placed);
        if deser::check_header::<D>(&mut b).is_err() {
            return None;
        }
        let (r, n, bytes, sizes) = crate::alloc::measure(|| D::_deserialize_eps_inner(&mut b));
        let ok = r.is_ok();
        drop(r);
        if ok { Some((n, bytes, sizes)) } else { None }
    }));
    match res {
        Ok(Some((n, bytes, sizes))) => format!(
            "calls={:x} bytes={:x} sizes={}",
            n,
            bytes,
            sizes.iter().map(|x| format!("{:x}", x)).collect::<Vec<_>>().join(",")
        ),
        Ok(None) => "none".into(),
        Err(_) => "PANIC".into(),
    }
}

/// The ε-copy type of `D` as rustc sees it against the type `E` predicted from the definition.
pub fn dty_case<D: Deserialize, E: ?Sized>(cid: &str, ops: &[String], out: &mut String)
where
    for<'a> DeserType<'a, D>: Sized,
{
    if !ops.iter().any(|o| o == "dty") {
        return;
    }
    let actual = core::any::type_name::<DeserType<'static, D>>();
    let expected = core::any::type_name::<E>();
    if actual == expected {
        out.push_str(&format!("{} dty same\n", cid));
    } else {
        out.push_str(&format!("{} dty DIFF actual={} expected={}\n", cid, actual.replace(' ', ""), expected.replace(' ', "")));
    }
}

/// A hasher that records every byte it is fed.
#[derive(Default)]
pub struct RecHasher(pub Vec<u8>);
impl core::hash::Hasher for RecHasher {
    fn write(&mut self, bytes: &[u8]) {
        self.0.extend_from_slice(bytes);
    }
    fn finish(&self) -> u64 {
        0
    }
}

/// the byte feeds of TypeHash / AlignHash of `D`, their xxh3-64 and whether those are the header words
pub fn feed_obs<D: TypeHash + AlignHash>(bytes: &Option<Vec<u8>>) -> String {
    let mut th = RecHasher::default();
    D::type_hash(&mut th);
    let mut ah = RecHasher::default();
    let mut off = 0usize;
    D::align_hash(&mut ah, &mut off);
    let h1 = xxhash_rust::xxh3::xxh3_64(&th.0);
    let h2 = xxhash_rust::xxh3::xxh3_64(&ah.0);
    let hdr = match bytes {
        Some(b) if b.len() >= 29 => {
            u64::from_le_bytes(b[13..21].try_into().unwrap()) == h1 && u64::from_le_bytes(b[21..29].try_into().unwrap()) == h2
        }
        _ => true,
    };
    format!("t={} a={} th={:x} ah={:x} hdr={}", if th.0.is_empty() { "-".to_string() } else { hex(&th.0) },
            if ah.0.is_empty() { "-".to_string() } else { hex(&ah.0) }, h1, h2, if hdr { "y" } else { "n" })
}

/// The feeds of the type that is serialized itself (a slice reference or an iterator wrapper
/// delegates them to the vector; the header is written from the SerType).
pub fn sfeed_case<S: TypeHash + AlignHash>(cid: &str, ops: &[String], out: &mut String) {
    if !ops.iter().any(|o| o == "sfeed") {
        return;
    }
    let s = feed_obs::<S>(&None);
    let keep: Vec<&str> = s.split(' ').filter(|p| p.starts_with("t=") || p.starts_with("a=")).collect();
    out.push_str(&format!("{} sfeed {}\n", cid, keep.join(" ")));
}

pub fn hdr_obs(bytes: &[u8]) -> String {
    // magic 8, major 2, minor 2, usize 1, type hash 8, align hash 8, name len 8, name
    let th = u64::from_le_bytes(bytes[13..21].try_into().unwrap());
    let ah = u64::from_le_bytes(bytes[21..29].try_into().unwrap());
    let nl = u64::from_le_bytes(bytes[29..37].try_into().unwrap()) as usize;
    format!("th={:x} ah={:x} name={}", th, ah, hex(&bytes[37..37 + nl]))
}

// ------------------------------------------------------------------ fault-injecting writers and readers

/// accepts bytes until `limit` in total (the last write partially), then fails
pub struct FailAfter { pub limit: usize, pub got: Vec<u8> }
impl Write for FailAfter {
    fn write(&mut self, buf: &[u8]) -> std::io::Result<usize> {
        let room = self.limit - self.got.len();
        if buf.is_empty() { return Ok(0); }
        if room == 0 { return Err(std::io::Error::new(std::io::ErrorKind::Other, "full")); }
        let n = room.min(buf.len());
        self.got.extend_from_slice(&buf[..n]);
        Ok(n)
    }
    fn flush(&mut self) -> std::io::Result<()> { Ok(()) }
}
/// accepts at most `max` bytes per call, interrupts every `intr`-th call (0 = never)
pub struct ShortWriter { pub max: usize, pub intr: usize, pub calls: usize, pub got: Vec<u8> }
impl Write for ShortWriter {
    fn write(&mut self, buf: &[u8]) -> std::io::Result<usize> {
        self.calls += 1;
        if self.intr != 0 && self.calls % self.intr == 0 {
            return Err(std::io::Error::new(std::io::ErrorKind::Interrupted, "intr"));
        }
        let n = self.max.min(buf.len());
        self.got.extend_from_slice(&buf[..n]);
        Ok(n)
    }
    fn flush(&mut self) -> std::io::Result<()> { Ok(()) }
}
/// accepts everything, fails on flush
pub struct FlushFail { pub got: Vec<u8> }
impl Write for FlushFail {
    fn write(&mut self, buf: &[u8]) -> std::io::Result<usize> { self.got.extend_from_slice(buf); Ok(buf.len()) }
    fn flush(&mut self) -> std::io::Result<()> { Err(std::io::Error::new(std::io::ErrorKind::Other, "flush")) }
}
/// returns Ok(0) once `limit` bytes have been taken
pub struct ZeroAfter { pub limit: usize, pub got: Vec<u8> }
impl Write for ZeroAfter {
    fn write(&mut self, buf: &[u8]) -> std::io::Result<usize> {
        let room = self.limit - self.got.len();
        let n = room.min(buf.len());
        self.got.extend_from_slice(&buf[..n]);
        Ok(n)
    }
    fn flush(&mut self) -> std::io::Result<()> { Ok(()) }
}

/// delivers `data` in fragments of sizes cycling through `sizes`, interrupting every `intr`-th
/// call (0 = never) and failing once `failat` bytes have been delivered
pub struct FragReader<'a> { pub data: &'a [u8], pub pos: usize, pub sizes: Vec<usize>, pub intr: usize, pub calls: usize, pub failat: Option<usize> }
impl Read for FragReader<'_> {
    fn read(&mut self, buf: &mut [u8]) -> std::io::Result<usize> {
        self.calls += 1;
        if self.intr != 0 && self.calls % self.intr == 0 {
            return Err(std::io::Error::new(std::io::ErrorKind::Interrupted, "intr"));
        }
        let mut lim = self.data.len();
        if let Some(k) = self.failat {
            if self.pos >= k { return Err(std::io::Error::new(std::io::ErrorKind::Other, "fail")); }
            lim = lim.min(k);
        }
        let want = self.sizes[self.calls % self.sizes.len()].max(1);
        let n = want.min(buf.len()).min(lim - self.pos.min(lim));
        buf[..n].copy_from_slice(&self.data[self.pos..self.pos + n]);
        self.pos += n;
        Ok(n)
    }
}

fn ser_code<T>(r: std::thread::Result<ser::Result<T>>, got: &[u8], want: &[u8], content: bool) -> String {
    // `content`: compare the accepted bytes with the reference (only meaningful when both come from
    // the same object: padding bytes of a fresh object are unspecified); otherwise only the length
    let pre = if got.len() <= want.len() && (!content || got == &want[..got.len()]) { format!("p{}", got.len()) } else { "NOTPREFIX".to_string() };
    match r {
        Ok(Ok(_)) => format!("OK/{}", pre),
        Ok(Err(e)) => format!("{}/{}", show_ser_err(&e), pre),
        Err(_) => format!("PANIC/{}", pre),
    }
}

/// erase the reference markers, but keep any report of a reference outside the buffer or misaligned
pub fn erase_refs_checked(s: &str) -> String {
    let e = erase_refs(s);
    if s.contains("OUTSIDE") { format!("OUTSIDE!{}", e) } else if s.contains("MISALIGNED") { format!("MISALIGNED!{}", e) } else { e }
}

pub fn erase_refs(s: &str) -> String {
    let mut out = String::with_capacity(s.len());
    let mut skipping = false;
    for c in s.chars() {
        if skipping {
            if c == ':' {
                skipping = false;
            }
        } else if c == '&' {
            skipping = true;
        } else {
            out.push(c);
        }
    }
    out
}

fn rle(codes: &[String]) -> String {
    let mut out = String::new();
    let mut i = 0;
    while i < codes.len() {
        let mut j = i;
        while j < codes.len() && codes[j] == codes[i] {
            j += 1;
        }
        out.push_str(&format!("{}*{} ", codes[i], j - i));
        i = j;
    }
    out
}

/// the cut / failure positions tried: all of them when step <= 1, else the first and last 48
/// and every step-th
pub fn sampled(n: usize, step: usize, inclusive: bool) -> Vec<usize> {
    let top = if inclusive { n + 1 } else { n };
    (0..top).filter(|k| step <= 1 || *k < 48 || *k + 48 >= n || k % step == 0).collect()
}

fn class_of(s: &str) -> String {
    if s.starts_with("OK") {
        "OK".into()
    } else if let Some(e) = s.strip_prefix("ERR ") {
        e.to_string()
    } else if s.starts_with("PANIC") {
        "P".into()
    } else {
        s.to_string()
    }
}

/// "OK <canon> pos=.." -> "OK:<canon>", "ERR x" -> "E:x", "PANIC" -> "P"
fn code_of(s: &str, erase: bool) -> String {
    if let Some(r) = s.strip_prefix("OK ") {
        let v = r.split(" pos=").next().unwrap_or("");
        format!("OK:{}", if erase { erase_refs(v) } else { v.to_string() })
    } else if let Some(e) = s.strip_prefix("ERR ") {
        format!("E:{}", e)
    } else if s.starts_with("PANIC") {
        "P".into()
    } else {
        s.to_string()
    }
}

pub struct SchemaObs {
    pub line: String,
    pub rows: Vec<(String, usize, usize, usize)>,
}

pub fn schema_obs<S: Serialize>(v: &S, plain: &Option<Vec<u8>>) -> SchemaObs {
    let mut w = RecWriter::default();
    let r = catch_unwind(AssertUnwindSafe(|| v.serialize_with_schema(&mut w)));
    match r {
        Ok(Ok(schema)) => {
            let rows: Vec<(String, usize, usize, usize)> = schema
                .0
                .iter()
                .map(|r| (r.field.clone(), r.offset, r.size, r.align))
                .collect();
            let txt: Vec<String> = rows
                .iter()
                .map(|(f, o, s, a)| format!("{}|{:x}|{:x}|{:x}", f, o, s, a))
                .collect();
            let same = match plain {
                Some(b) => *b == w.bytes,
                None => false,
            };
            let csv = catch_unwind(AssertUnwindSafe(|| schema.to_csv().len())).is_ok();
            let dbg = catch_unwind(AssertUnwindSafe(|| schema.debug(&w.bytes).len())).is_ok();
            SchemaObs {
                line: format!(
                    "OK rows={} flush={} csv={} debug={} same={}",
                    txt.join(";"),
                    w.flushed,
                    if csv { "ok" } else { "panic" },
                    if dbg { "ok" } else { "panic" },
                    if same { "y" } else { "n" }
                ),
                rows,
            }
        }
        Ok(Err(e)) => SchemaObs { line: format!("ERR {}", show_ser_err(&e)), rows: vec![] },
        Err(_) => SchemaObs { line: "PANIC".into(), rows: vec![] },
    }
}

/// Run the requested observations for one case. `S` is the serialized type, `D` its SerType.
pub fn run_case<S: Serialize, D: Deserialize + TypeHash + AlignHash + Obs>(cid: &str, mk: &dyn Fn() -> S, ops: &[String], arena: &mut Arena, out: &mut String)
where
    for<'a> DeserType<'a, D>: Obs,
{
    // a fresh value for every serialization: iterators are consumed by serializing them
    let (ser_line, bytes) = ser_obs(&mk());
    for op in ops {
        let mut it = op.splitn(2, ':');
        let k = it.next().unwrap();
        let arg = it.next().unwrap_or("");
        match k {
            "ser" => out.push_str(&format!("{} ser {}\n", cid, ser_line)),
            "hdr" => {
                if let Some(b) = &bytes {
                    out.push_str(&format!("{} hdr {}\n", cid, hdr_obs(b)));
                }
            }
            "feed" => out.push_str(&format!("{} feed {}\n", cid, feed_obs::<D>(&bytes))),
            "full" => {
                if let Some(b) = &bytes {
                    out.push_str(&format!("{} full {}\n", cid, full_obs::<D>(b)));
                }
            }
            "eps" => {
                if let Some(b) = &bytes {
                    let r = usize::from_str_radix(arg, 16).unwrap();
                    let placed = arena.place(r, b);
                    out.push_str(&format!("{} eps:{} {}\n", cid, arg, eps_obs::<D>(placed)));
                }
            }
            "alloc" => {
                if let Some(b) = &bytes {
                    let r = usize::from_str_radix(arg, 16).unwrap();
                    let placed = arena.place(r, b);
                    out.push_str(&format!("{} alloc:{} {}\n", cid, arg, alloc_obs::<D>(placed)));
                }
            }
            "schema" => {
                // the plain and the recording serialization of the SAME object (padding bytes of a
                // fresh object are unspecified); iterator wrappers are consumed, so for them a
                // fresh object is used and only the lengths are compared
                let so = if arg == "noagain" {
                    let mut so = schema_obs(&mk(), &None);
                    let mut w = RecWriter::default();
                    let _ = catch_unwind(AssertUnwindSafe(|| mk().serialize_with_schema(&mut w)));
                    let same = bytes.as_ref().map(|b| b.len() == w.bytes.len()).unwrap_or(false);
                    so.line = so.line.replace("same=n", if same { "same=y" } else { "same=n" });
                    so
                } else {
                    let v = mk();
                    let plain = ser_obs(&v).1;
                    schema_obs(&v, &plain)
                };
                out.push_str(&format!("{} schema {}\n", cid, so.line));
            }
            "cuts" => {
                if let Some(b) = &bytes {
                    let mut fc = vec![];
                    let mut ec = vec![];
                    // the full stream stays behind each prefix: a read past the prefix would succeed
                    arena.place(0, b);
                    let step: usize = arg.parse().unwrap_or(1);
                    for k in sampled(b.len(), step, false) {
                        fc.push(class_of(&full_obs::<D>(&b[..k])));
                        let placed = &arena.place(0, b)[..k];
                        ec.push(class_of(&eps_obs::<D>(placed)));
                    }
                    out.push_str(&format!("{} cuts full={} eps={}\n", cid, rle(&fc), rle(&ec)));
                }
            }
            "flips" => {
                if let Some(b) = &bytes {
                    let mut res = vec![];
                    let mut test = |tag: String, bs: &[u8], arena: &mut Arena| {
                        let f = code_of(&full_obs::<D>(bs), false);
                        let placed = arena.place(0, bs);
                        let e = code_of(&eps_obs::<D>(placed), true);
                        res.push(format!("{}={}", tag, if f == e { f } else { format!("{}//{}", f, e) }));
                    };
                    for i in 0..29 * 8 {
                        let mut m = b.clone();
                        m[i / 8] ^= 1 << (i % 8);
                        test(i.to_string(), &m, arena);
                    }
                    let mut m = b.clone();
                    m[..8].reverse();
                    test("rev".into(), &m, arena);
                    for minor in [0u16, 1, 2, 255, 256, 65535] {
                        let mut m = b.clone();
                        m[10..12].copy_from_slice(&minor.to_le_bytes());
                        test(format!("minor{}", minor), &m, arena);
                    }
                    out.push_str(&format!("{} flips {}\n", cid, res.join(" ")));
                }
            }
            "place" => {
                if let Some(b) = &bytes {
                    let mut codes = vec![];
                    let mut misaligned = 0usize;
                    // every successful placement must give the same result, borrowed parts at the
                    // same offsets included
                    let mut first_ok: Option<String> = None;
                    let mut diffrefs = 0usize;
                    for r in 0..128usize {
                        let placed = arena.place(r, b);
                        let o = eps_obs::<D>(placed);
                        if o.contains("MISALIGNED") {
                            misaligned += 1;
                        }
                        if o.starts_with("OK") {
                            match &first_ok {
                                None => first_ok = Some(o.clone()),
                                Some(f) => if *f != o { diffrefs += 1; },
                            }
                        }
                        codes.push(class_of(&o));
                    }
                    out.push_str(&format!("{} place {} misaligned={} diffrefs={}\n", cid, rle(&codes), misaligned, diffrefs));
                }
            }
            "wfault" => {
                // every failure position, flush failure, short writes, interrupts, Ok(0), real sinks;
                // the value is serialized again afterwards (same object) to see it is intact
                if bytes.is_some() {
                    // one object for every run (so that padding bytes are the same), except for
                    // iterator wrappers, which are consumed by serialization
                    let same_obj = !arg.starts_with("noagain");
                    let step: usize = arg.rsplit(':').next().and_then(|x| x.parse().ok()).unwrap_or(1);
                    let v = mk();
                    let b: Vec<u8> = if same_obj { ser_obs(&v).1.unwrap_or_default() } else { bytes.clone().unwrap() };
                    let b = &b;
                    let n = b.len();
                    macro_rules! run {
                        ($w:expr) => {{
                            if same_obj { catch_unwind(AssertUnwindSafe(|| v.serialize($w))) }
                            else { catch_unwind(AssertUnwindSafe(|| mk().serialize($w))) }
                        }};
                    }
                    let mut codes = vec![];
                    for k in sampled(n, step, true) {
                        let mut w = FailAfter { limit: k, got: vec![] };
                        let r = run!(&mut w);
                        let c = ser_code(r, &w.got, b, same_obj);
                        // required: WriteError with exactly the first k bytes accepted (success when k = n)
                        let want = if k < n { format!("WriteError/p{}", k) } else { format!("OK/p{}", n) };
                        codes.push(if c == want { "ok".to_string() } else { c });
                    }
                    let mut extra = vec![];
                    let mut w = FlushFail { got: vec![] };
                    let r = run!(&mut w);
                    extra.push(format!("flush={}", ser_code(r, &w.got, b, same_obj)));
                    for (name, max, intr) in [("short1", 1usize, 0usize), ("short3", 3, 0), ("short7intr2", 7, 2), ("bigintr3", 1 << 20, 3)] {
                        let mut w = ShortWriter { max, intr, calls: 0, got: vec![] };
                        let r = run!(&mut w);
                        extra.push(format!("{}={}", name, ser_code(r, &w.got, b, same_obj)));
                    }
                    let mut w = ZeroAfter { limit: n / 2, got: vec![] };
                    let r = run!(&mut w);
                    extra.push(format!("zero={}", ser_code(r, &w.got, b, same_obj)));
                    // the other serialization entry point: serialize_with_schema
                    macro_rules! runs {
                        ($w:expr) => {{
                            if same_obj { catch_unwind(AssertUnwindSafe(|| v.serialize_with_schema($w))) }
                            else { catch_unwind(AssertUnwindSafe(|| mk().serialize_with_schema($w))) }
                        }};
                    }
                    let mut w = FlushFail { got: vec![] };
                    let r = runs!(&mut w);
                    extra.push(format!("sflush={}", ser_code(r, &w.got, b, same_obj)));
                    let mut w = FailAfter { limit: n / 2, got: vec![] };
                    let r = runs!(&mut w);
                    extra.push(format!("smid={}", ser_code(r, &w.got, b, same_obj)));
                    // real sinks
                    let path = std::env::temp_dir().join(format!("evh_{}_{}.bin", std::process::id(), cid));
                    {
                        let f = std::fs::File::create(&path).unwrap();
                        let mut bw = std::io::BufWriter::new(f);
                        let r = run!(&mut bw);
                        drop(bw);
                        let got = std::fs::read(&path).unwrap_or_default();
                        extra.push(format!("file={}", ser_code(r, &got, b, same_obj)));
                        let _ = std::fs::remove_file(&path);
                    }
                    if let Ok(f) = std::fs::OpenOptions::new().write(true).open("/dev/full") {
                        let mut bw = std::io::BufWriter::new(f);
                        let r = run!(&mut bw);
                        extra.push(format!("devfull={}", match r { Ok(Ok(_)) => "OK".to_string(), Ok(Err(e)) => show_ser_err(&e), Err(_) => "PANIC".into() }));
                        std::mem::forget(bw);
                    }
                    if same_obj {
                        // after all those failures the same object still serializes to the same bytes
                        let (_, again) = ser_obs(&v);
                        extra.push(format!("again={}", if again.as_deref() == Some(&b[..]) { "same" } else { "DIFFERENT" }));
                    }
                    out.push_str(&format!("{} wfault fails={} {}\n", cid, rle(&codes), extra.join(" ")));
                }
            }
            "rfault" => {
                if let Some(b) = &bytes {
                    let plain = full_obs::<D>(b);
                    let mut parts = vec![];
                    for (name, sizes, intr) in [("one", vec![1usize], 0usize), ("three", vec![3], 0), ("primes", vec![2, 3, 5, 7, 11, 13], 0), ("mixintr", vec![1, 64, 2, 9], 2), ("bigintr", vec![1 << 20], 3)] {
                        let mut r = FragReader { data: b, pos: 0, sizes, intr, calls: 0, failat: None };
                        let res = catch_unwind(AssertUnwindSafe(|| D::deserialize_full(&mut r)));
                        let s = match res {
                            Ok(Ok(v)) => { set_buf(0, 0); format!("OK {} pos={:x} rest={}", show(&v), r.pos, b.len() - r.pos) }
                            Ok(Err(e)) => format!("ERR {}", show_err(&e)),
                            Err(_) => "PANIC".into(),
                        };
                        parts.push(format!("{}={}", name, if s == plain { "same" } else { "DIFFERENT" }));
                    }
                    let mut codes = vec![];
                    let step: usize = arg.parse().unwrap_or(1);
                    for k in sampled(b.len(), step, false) {
                        let mut r = FragReader { data: b, pos: 0, sizes: vec![5, 1, 9], intr: 0, calls: 0, failat: Some(k) };
                        let res = catch_unwind(AssertUnwindSafe(|| D::deserialize_full(&mut r)));
                        codes.push(match res {
                            Ok(Ok(_)) => "OK".to_string(),
                            Ok(Err(e)) => show_err(&e),
                            Err(_) => "P".into(),
                        });
                    }
                    out.push_str(&format!("{} rfault {} fails={}\n", cid, parts.join(" "), rle(&codes)));
                }
            }
            "tags" => {
                // arg: comma separated number of valid tags for each tag position, in stream order
                if let Some(b) = &bytes {
                    let counts: Vec<u64> = arg.split(',').filter(|s| !s.is_empty()).map(|s| s.parse().unwrap()).collect();
                    let so = schema_obs(&mk(), &bytes);
                    let tagrows: Vec<&(String, usize, usize, usize)> = so
                        .rows
                        .iter()
                        .filter(|(f, _, s, _)| (f.ends_with(".Tag") && *s == 1) || (f.ends_with(".tag") && *s == 8))
                        .collect();
                    let mut parts = vec![];
                    if tagrows.len() != counts.len() {
                        parts.push(format!("TAGROWS-MISMATCH rows={} expected={}", tagrows.len(), counts.len()));
                    } else {
                        for (row, n) in tagrows.iter().zip(counts.iter()) {
                            let (_, off, size, _) = row;
                            let vals: Vec<u64> = if *size == 1 {
                                (*n..256).collect()
                            } else {
                                vec![*n, *n + 1, 255, 256, 1 << 32, 1 << 63, u64::MAX].into_iter().filter(|x| x >= n).collect()
                            };
                            let mut codes = vec![];
                            for val in vals {
                                let mut m = b.clone();
                                if *size == 1 {
                                    m[*off] = val as u8;
                                } else {
                                    m[*off..*off + 8].copy_from_slice(&val.to_le_bytes());
                                }
                                let f = code_of(&full_obs::<D>(&m), false);
                                let placed = arena.place(0, &m);
                                let e = code_of(&eps_obs::<D>(placed), true);
                                codes.push(format!("{:x}>{}", val, if f == e { f } else { format!("{}//{}", f, e) }));
                            }
                            parts.push(format!("@{:x}/{}:{}", off, size, codes.join(",")));
                        }
                    }
                    out.push_str(&format!("{} tags {}\n", cid, parts.join(" ")));
                }
            }
            "gold" => {
                // a file written by the pinned build: read it with the current build, both modes
                let b = crate::hexu::unhex(arg);
                let f = full_obs::<D>(&b);
                let placed = arena.place(0, &b);
                let e = eps_obs::<D>(placed);
                out.push_str(&format!("{} gold full={} eps={}\n", cid, code_of(&f, false), code_of(&e, true)));
            }
            "load" => {} // handled by loaders::load_case, called by the generated code
            "cross" => {} // handled by cross_case, called by the generated code after run_case
            "dty" => {} // handled by dty_case, called by the generated code
            "sfeed" => {} // handled by sfeed_case, called by the generated code
            _ => panic!("unknown op {}", op),
        }
        // one flush per operation: after an abort the orchestrator knows which operation was running
        flush_out(out);
    }
}

/// Writes the pending observation lines to stdout and clears the buffer.
pub fn flush_out(out: &mut String) {
    use std::io::Write;
    if out.is_empty() {
        return;
    }
    let so = std::io::stdout();
    let mut l = so.lock();
    let _ = l.write_all(out.as_bytes());
    let _ = l.flush();
    out.clear();
}

/// Bytes serialized as `S` read as the different type `U` (C04)
pub fn cross_case<S: Serialize, U: Deserialize + TypeHash + AlignHash + Obs>(cid: &str, target: &str, mk: &dyn Fn() -> S, ops: &[String], arena: &mut Arena, out: &mut String)
where
    for<'a> DeserType<'a, U>: Obs,
{
    if !ops.iter().any(|o| o == "cross") {
        return;
    }
    if let (_, Some(b)) = ser_obs(&mk()) {
        let f = code_of(&full_obs::<U>(&b), false);
        let placed = arena.place(0, &b);
        let e = code_of(&eps_obs::<U>(placed), true);
        out.push_str(&format!("{} cross:{} full={} eps={}\n", cid, target, f, e));
    }
}

/// An exact-size iterator over a slice that announces `claimed` items (possibly a lie).
#[derive(Clone, Debug)]
pub struct LenIter<'a, T> {
    items: &'a [T],
    i: usize,
    claimed: usize,
}
impl<'a, T> LenIter<'a, T> {
    pub fn new(items: &'a [T], claimed: usize) -> Self {
        LenIter { items, i: 0, claimed }
    }
}
impl<'a, T> Iterator for LenIter<'a, T> {
    type Item = &'a T;
    fn next(&mut self) -> Option<&'a T> {
        let r = self.items.get(self.i);
        self.i += 1;
        r
    }
    fn size_hint(&self) -> (usize, Option<usize>) {
        (self.claimed, Some(self.claimed))
    }
}
impl<'a, T> ExactSizeIterator for LenIter<'a, T> {
    fn len(&self) -> usize {
        self.claimed
    }
}

/// C04, a fixed family of near-miss pairs that cannot be cases of the campaign because a value of
/// the second type cannot be written down: array lengths that differ only above a narrower integer
/// width (a length fed to the hasher through a cast collides exactly there).  The bytes of a value of
/// the first type are read as the second type; every entry must be a hash error.  Items are
/// zero-sized, so the types exist for any length and an eps-copy result is a reference (no loop);
/// full-copy is only tried for the lengths it can walk through.
pub fn hash_family_obs() -> String {
    use core::marker::PhantomData;
    fn eps_code<U: Deserialize + TypeHash + AlignHash>(b: &[u8]) -> String {
        let mut arena = Arena::new(1 << 12);
        let placed = arena.place(0, b);
        match catch_unwind(AssertUnwindSafe(|| {
            let mut s = SliceWithPos::new(placed);
            match deser::check_header::<U>(&mut s) {
                Err(e) => Err(e),
                Ok(()) => U::_deserialize_eps_inner(&mut s).map(|_| ()),
            }
        })) {
            Ok(Ok(())) => "OK".into(),
            Ok(Err(e)) => format!("E:{}", show_err(&e).split(':').next().unwrap_or("").to_string()),
            Err(_) => "P".into(),
        }
    }
    fn full_code<U: Deserialize>(b: &[u8]) -> String {
        let mut r = CountReader { data: b, pos: 0 };
        match catch_unwind(AssertUnwindSafe(|| U::deserialize_full(&mut r).map(|_| ()))) {
            Ok(Ok(())) => "OK".into(),
            Ok(Err(e)) => format!("E:{}", show_err(&e).split(':').next().unwrap_or("").to_string()),
            Err(_) => "P".into(),
        }
    }
    let mut out: Vec<String> = vec![];
    macro_rules! pair {
        ($name:expr, $v:expr, $u:ty, full) => {{
            if let (_, Some(b)) = ser_obs(&$v) {
                out.push(format!("{}~full={},eps={}", $name, full_code::<$u>(&b), eps_code::<$u>(&b)));
            }
        }};
        ($name:expr, $v:expr, $u:ty, eps) => {{
            if let (_, Some(b)) = ser_obs(&$v) {
                out.push(format!("{}~eps={}", $name, eps_code::<$u>(&b)));
            }
        }};
    }
    pair!("[();1]/[();257]", [(); 1], [(); 257], full);
    pair!("[();1]/[();65537]", [(); 1], [(); 65537], full);
    pair!("[();1]/[();4294967297]", [(); 1], [(); 4294967297], eps);
    pair!("[();0]/[();4294967296]", [(); 0], [(); 4294967296], eps);
    pair!("[PhantomData<u64>;2]/[PhantomData<u64>;4294967298]", [PhantomData::<u64>; 2], [PhantomData<u64>; 4294967298], eps);
    pair!("[PhantomData<u64>;3]/[PhantomData<u64>;259]", [PhantomData::<u64>; 3], [PhantomData<u64>; 259], full);
    pair!("Vec<[();1]>/Vec<[();4294967297]>", vec![[(); 1]; 2], Vec<[(); 4294967297]>, eps);
    pair!("[();1]/[();9223372036854775809]", [(); 1], [(); 9223372036854775809], eps);
    out.join("|")
}
