//! Cursor campaign, implementation side: run each history on AlignedCursor<T> and on
//! std::io::Cursor<Vec<u8>> and print the observations in the model driver's format.
use epserde::utils::AlignedCursor;
use evharness::hexu::*;
use maligned::{Alignment, A16, A2, A512, A64};
use std::io::{Read, Seek, SeekFrom, Write};
use std::panic::{catch_unwind, AssertUnwindSafe};

#[derive(Clone)]
enum Op {
    W(Vec<u8>),
    R(usize),
    SS(u64),
    SC(i64),
    SE(i64),
    P(u64),
}

fn parse_op(s: &str) -> Op {
    let (k, a) = s.split_once(':').unwrap();
    match k {
        "W" => Op::W(unhex(a)),
        "R" => Op::R(parse_u64(a) as usize),
        "SS" => Op::SS(parse_u64(a)),
        "SC" => Op::SC(parse_i64(a)),
        "SE" => Op::SE(parse_i64(a)),
        "P" => Op::P(parse_u64(a)),
        _ => panic!("bad op {}", s),
    }
}

/// The history on a cursor built by `new()`, and again on cursors built by `with_capacity`: the
/// capacity must not be observable.
fn run_ac<T: Alignment>(ops: &[Op]) -> (String, bool) {
    let (a, al) = run_ac_from::<T>(AlignedCursor::<T>::new(), ops);
    for cap in [0usize, 1, 37, 4096] {
        let (b, al2) = run_ac_from::<T>(AlignedCursor::<T>::with_capacity(cap), ops);
        if b != a || al2 != al {
            return (format!("WITH-CAPACITY-{}-DIFFERS;{}", cap, b), al && al2);
        }
    }
    (a, al)
}

fn run_ac_from<T: Alignment>(mut c: AlignedCursor<T>, ops: &[Op]) -> (String, bool) {
    let mut out = vec![];
    if c.len() != 0 || !c.is_empty() || c.position() != 0 {
        // (the storage is not touched: with a wrong length as_bytes would read outside it)
        return (format!("FRESH-CURSOR-NOT-EMPTY len={} pos={}", c.len(), c.position()), true);
    }
    let mut aligned = true;
    let mut dead = false;
    for op in ops {
        if dead {
            break;
        }
        let r = catch_unwind(AssertUnwindSafe(|| match op {
            Op::W(b) => match c.write(b) {
                Ok(n) => format!("n{:x}", n),
                Err(_) => "err".into(),
            },
            Op::R(n) => {
                let mut buf = vec![0xAAu8; *n];
                match c.read(&mut buf) {
                    Ok(k) => format!("d{}", hex(&buf[..k])),
                    Err(_) => "err".into(),
                }
            }
            Op::SS(n) => match c.seek(SeekFrom::Start(*n)) {
                Ok(n) => format!("n{:x}", n),
                Err(_) => "err".into(),
            },
            Op::SC(z) => match c.seek(SeekFrom::Current(*z)) {
                Ok(n) => format!("n{:x}", n),
                Err(_) => "err".into(),
            },
            Op::SE(z) => match c.seek(SeekFrom::End(*z)) {
                Ok(n) => format!("n{:x}", n),
                Err(_) => "err".into(),
            },
            Op::P(n) => {
                c.set_position(*n as usize);
                "u".into()
            }
        }));
        match r {
            Ok(s) => {
                let pos = c.position();
                let len = c.len();
                let empty_ok = c.is_empty() == (len == 0);
                let mutable_same = c.as_bytes_mut().to_vec() == c.as_bytes().to_vec();
                let bytes = c.as_bytes();
                if len > 0 && (bytes.as_ptr() as usize) % std::mem::align_of::<T>() != 0 {
                    aligned = false;
                }
                if !empty_ok || !mutable_same || bytes.len() != len {
                    out.push("ACCESSORS-DISAGREE".to_string());
                }
                out.push(format!("{}|{:x}|{:x}|{}", s, pos, len, hex(bytes)));
            }
            Err(_) => {
                out.push("PANIC".to_string());
                dead = true;
            }
        }
    }
    if !dead {
        // into_parts: the storage (whole units) and the length in bytes
        let expect: Vec<u8> = c.as_bytes().to_vec();
        let (v, len) = c.into_parts();
        let raw = unsafe { std::slice::from_raw_parts(v.as_ptr() as *const u8, v.len() * std::mem::size_of::<T>()) };
        if len != expect.len() || raw.len() < len || raw[..len] != expect[..] {
            out.push("INTO-PARTS-DIFFERS".to_string());
        }
    }
    (out.join(";"), aligned)
}

fn run_std(ops: &[Op]) -> String {
    let mut c = std::io::Cursor::new(Vec::<u8>::new());
    let mut out = vec![];
    for op in ops {
        let s = match op {
            Op::W(b) => match c.write(b) {
                Ok(n) => format!("n{:x}", n),
                Err(_) => "err".into(),
            },
            Op::R(n) => {
                let mut buf = vec![0xAAu8; *n];
                match c.read(&mut buf) {
                    Ok(k) => format!("d{}", hex(&buf[..k])),
                    Err(_) => "err".into(),
                }
            }
            Op::SS(n) => match c.seek(SeekFrom::Start(*n)) {
                Ok(n) => format!("n{:x}", n),
                Err(_) => "err".into(),
            },
            Op::SC(z) => match c.seek(SeekFrom::Current(*z)) {
                Ok(n) => format!("n{:x}", n),
                Err(_) => "err".into(),
            },
            Op::SE(z) => match c.seek(SeekFrom::End(*z)) {
                Ok(n) => format!("n{:x}", n),
                Err(_) => "err".into(),
            },
            Op::P(n) => {
                c.set_position(*n);
                "u".into()
            }
        };
        out.push(format!(
            "{}|{:x}|{:x}|{}",
            s,
            c.position(),
            c.get_ref().len(),
            hex(c.get_ref())
        ));
    }
    out.join(";")
}

fn main() {
    std::panic::set_hook(Box::new(|_| {}));
    let path = std::env::args().nth(1).expect("case file");
    let text = std::fs::read_to_string(path).unwrap();
    let mut o = String::new();
    for line in text.lines() {
        if line.is_empty() {
            continue;
        }
        let mut it = line.splitn(3, ' ');
        let id = it.next().unwrap();
        let u = parse_u64(it.next().unwrap());
        let ops: Vec<Op> = it
            .next()
            .unwrap_or("")
            .split(';')
            .filter(|s| !s.is_empty())
            .map(parse_op)
            .collect();
        let (ac, aligned) = match u {
            2 => run_ac::<A2>(&ops),
            16 => run_ac::<A16>(&ops),
            64 => run_ac::<A64>(&ops),
            512 => run_ac::<A512>(&ops),
            _ => panic!("unsupported unit {}", u),
        };
        o.push_str(&format!("{} ac {}\n", id, ac));
        o.push_str(&format!("{} std {}\n", id, run_std(&ops)));
        o.push_str(&format!("{} aligned {}\n", id, if aligned { "y" } else { "n" }));
    }
    print!("{}", o);
}
