//! Observation library shared by the harness binaries.
pub mod hexu;
