//! Observation library shared by the harness binaries.
pub mod hexu;
pub mod obs;
pub mod codec;
pub mod alloc;
pub mod loaders;
