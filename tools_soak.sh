#!/bin/bash
# usage: tools_soak.sh <seed> [tier]  -- runs all 19 checks with another seed on the current tree
cd /verif
export VERIF_SEED=$1
tier=${2:-quick}
for p in C01 C02 C03 C04 C05 C06 C07 C08 C09 C10 C11 C12 C13 C14 C15 C16 C17 C18 C19; do
  s=$(date +%s)
  out=$(./check $p --tier $tier 2>&1 | grep -E "^VIOLATION" | head -1)
  echo "seed=$1 $p $(( $(date +%s) - s ))s ${out:-ok}"
done
